"""Random quantity definitions for C11 / C12 / C06-thorough: rendered both as Rust
source (one attribute per line, so line ranges are known) and as the item file
read by `driver <be> expandf|dumpf|runf|typingf`."""
from fractions import Fraction

PREFIXES = ["QUECTO", "RONTO", "YOCTO", "ZEPTO", "ATTO", "FEMTO", "PICO", "NANO", "MICRO", "MILLI", "CENTI", "DECI",
            "NONE", "DECA", "HECTO", "KILO", "MEGA", "GIGA", "TERA", "PETA", "EXA", "ZETTA", "YOTTA", "RONNA", "QUETTA"]
WORDS = ["Alpha", "beta", "GAMMA", "Delta2", "x3", "KiB", "per", "squared", "Unit", "of", "HTTPServer", "a", "Zeta9b", "mu",
         "N", "m", "k", "X", "kN", "W", "h"]   # one-letter words: camel-casing erases their boundaries
SYMS = ["a", "kb", "µx", "°Q", "m²", "Ω", "🜨u", "x/y", "Q.r", "t-1", "ab c", "Å", "é", "w_w"]


def hexs(s):
    return s.encode("utf-8").hex()


class Tok:
    def __init__(self, kind, text, lit=None):
        self.kind, self.text, self.lit = kind, text, lit

    def rust(self):
        if self.kind == "s":
            return '"' + self.text.replace("\\", "\\\\").replace('"', '\\"') + '"'
        return self.text

    def item(self):
        if self.kind == "i":
            return "i:" + hexs(self.text)
        if self.kind == "s":
            return "s:" + hexs(self.text)
        if self.kind == "c":
            return "c"
        if self.kind == "p":
            # a multi-character punctuation (`::`) is one token per character for the model
            return " ".join(f"p:{ord(ch)}" for ch in self.text)
        if self.kind == "n":
            d, nf, e, fl = self.lit
            return f"n:{d}:{nf}:{e}:{1 if fl else 0}"
        return "o"


def ident(t):
    return Tok("i", t)


def string(t):
    return Tok("s", t)


COMMA = Tok("c", ",")


def number(text):
    """literal text -> token with (digits, nfrac, exp, is_float)"""
    t = text
    exp = 0
    fl = False
    for ch in "eE":
        if ch in t:
            t, e = t.split(ch)
            exp = int(e)
            fl = True
            break
    if "." in t:
        ip, fp = t.split(".")
        fl = True
    else:
        ip, fp = t, ""
    return Tok("n", text, (int((ip + fp) or "0"), len(fp), exp, fl))


def lit_value(tok):
    d, nf, e, _ = tok.lit
    return Fraction(d) * Fraction(10) ** (e - nf)


class Attr:
    def __init__(self, kind, toks, parens=True):
        self.kind, self.toks, self.parens = kind, toks, parens

    def rust(self):
        if not self.parens:
            return f"#[{self.kind}]"
        out = ""
        prev = None
        for t in self.toks:
            if t.kind == "c":
                out += ", "
            else:
                # adjacent non-comma tokens are separated by a blank, otherwise `"doc"MILLI` or `7MILLI`
                # would be lexed as ONE suffixed literal
                if prev is not None and prev.kind != "c":
                    out += " "
                out += t.rust()
            prev = t
        return f"#[{self.kind}({out})]"

    def item(self):
        return f"attr {self.kind} " + " ".join(t.item() for t in self.toks)


class OtherAttr:
    """an attribute (or doc comment) that is none of the macro's business, written BETWEEN the unit attributes;
    the macro leaves it on the struct, the model never sees it"""
    kind = "other"
    toks = []
    parens = True

    def __init__(self, text):
        self.text = text

    def rust(self):
        return self.text

    def item(self):
        return None


class Def:
    def __init__(self, name):
        self.name = name
        self.args = []          # tokens inside #[quantity(...)]
        self.attrs = []
        self.item_kind = "struct"   # struct | enum | fn | type
        self.generics = ""
        self.body = " {}"       # " {}" | ";" | " { a: i32 }" | "(i32);"
        self.pre = []           # lines before #[quantity]
        self.tag = "wellformed"
        self.expect_site = None

    def rust_lines(self):
        lines = list(self.pre)
        a = "".join((" " + t.rust() + " ") if t.kind == "p" else t.rust() for t in self.args)
        lines.append(f"#[quantity({a})]" if self.args else "#[quantity]")
        attr_lines = {}
        for i, at in enumerate(self.attrs):
            attr_lines[i] = len(lines)
            lines.append(at.rust())
        if self.item_kind == "struct":
            lines.append(f"pub struct {self.name}{self.generics}{self.body}")
        elif self.item_kind == "enum":
            lines.append(f"pub enum {self.name} {{ Baz }}")
        elif self.item_kind == "fn":
            lines.append(f"pub fn {self.name.lower()}() {{}}")
        else:
            lines.append(f"pub type {self.name} = u8;")
        return lines, attr_lines

    def item_text(self):
        kind = "struct" if self.item_kind == "struct" else "other"
        g = 1 if self.generics else 0
        f = 1 if self.body.strip() not in ("{}", ";") else 0
        out = [f"item {self.name} {kind} {g} {f}", "args " + " ".join(t.item() for t in self.args)]
        out += [a.item() for a in self.attrs if a.kind != "other"]
        out.append("end")
        return "\n".join(out)


LIT_FORMS = [
    lambda r: str(r.below(2000) + 2),
    lambda r: str(r.below(2000) + 2) + ".",
    lambda r: str(r.below(900) + 1) + "e" + str(r.below(5)),
    lambda r: "0." + "0" * r.below(6) + str(r.below(999) + 1),
    lambda r: str(r.below(99) + 1) + "." + str(r.below(9999)),
    lambda r: str(r.below(9) + 1) + "." + str(r.below(99)) + "E-" + str(r.below(8) + 1),
    lambda r: "0.142857142857142857",
    lambda r: str(r.below(30) + 1) + ".0",
]


class Gen:
    def __init__(self, rng):
        self.rng = rng
        self.n = 0
        self.used_idents = set()
        self.refdefs = []      # names of generated types with a reference unit
        self.used_operands = set()

    def fresh_ident(self):
        while True:
            self.n += 1
            k = self.rng.below(3) + 1
            parts = [self.rng.choice(WORDS) for _ in range(k)]
            t = f"G{self.n}_" + "_".join(parts)
            # two identifiers must not collapse to one variant / constant name (`Foo_a` / `foo_A`)
            key = t.replace("_", "").lower()
            if key not in self.used_idents:
                self.used_idents.add(key)
                return t

    def noref_ident(self, defn):
        """identifiers sharing a prefix, so that the NAME order (underscore shown as space, case
        kept) and the order of the UpperCamel identifiers can differ"""
        while True:
            k = self.rng.below(3) + 1
            t = f"N{defn}_" + "_".join(self.rng.choice(["apple", "Banana", "bar", "Baz", "barA", "Foo", "FooA", "foo", "x9", "Zed"])
                                       for _ in range(k))
            key = t.replace("_", "").lower()
            if key not in self.used_idents:
                self.used_idents.add(key)
                return t

    def unit_attr(self, with_scale, allow_prefix, scale_text=None, noref_of=None):
        r = self.rng
        name = self.noref_ident(noref_of) if noref_of is not None else self.fresh_ident()
        toks = [ident(name), COMMA, string(r.choice(SYMS) + str(r.below(50)))]
        if allow_prefix and r.chance(1, 3):
            toks += [COMMA, ident(r.choice(PREFIXES))]
        if with_scale:
            toks += [COMMA, number(scale_text or r.choice(LIT_FORMS)(r))]
        if r.chance(1, 3):
            toks += [COMMA, string("doc " + str(r.below(100)))]
        elif r.chance(1, 8):
            toks += [COMMA]    # trailing comma (not accepted after the doc string)
        return Attr("unit", toks)

    def ref_attr(self):
        r = self.rng
        toks = [ident(self.fresh_ident()), COMMA, string(r.choice(SYMS) + str(r.below(50)))]
        if r.chance(1, 2):
            toks += [COMMA, ident(r.choice(PREFIXES))]
        if r.chance(1, 3):
            toks += [COMMA, string("reference unit")]
        return Attr("ref_unit", toks)

    def wellformed(self, kind=None):
        r = self.rng
        self.n += 1
        d = Def(f"Gq{self.n}")
        kind = kind or r.choice(["ref", "ref", "ref", "noref", "single", "derived"])
        if kind == "derived" and len(self.refdefs) < 2:
            kind = "ref"
        if kind in ("ref", "derived"):
            nunits = r.below(7) + 1
            units = []
            texts = []
            for _ in range(nunits):
                st = r.choice(texts) if (texts and r.chance(1, 5)) else r.choice(LIT_FORMS)(r)
                texts.append(st)
                units.append(self.unit_attr(True, True, st))
            if r.chance(1, 4):
                units.append(self.unit_attr(True, False, r.choice(["1", "1.0", "1.", "1e0"])))   # tie with the reference unit
            if r.chance(1, 3):
                # the same value in two literal forms
                a, b = r.choice([("1000", "1e3"), ("0.5", "0.50"), ("25", "25."), ("0.001", "1E-3")])
                units.append(self.unit_attr(True, False, a))
                units.append(self.unit_attr(True, False, b))
            d.attrs = r.shuffle(units + [self.ref_attr()])
            if kind == "derived":
                free = [t for t in self.refdefs if t not in self.used_operands]
                if len(free) >= 2:
                    a, b = free[r.below(len(free))], free[r.below(len(free))]
                    op = r.choice("*/")
                    if a == b and op == "/":
                        op = "*"
                    lhs = "AmountT" if (op == "/" and r.chance(1, 5)) else a
                    self.used_operands.update({lhs, b})
                    d.args = [ident(lhs), Tok("p", op), ident(b)]
            self.refdefs.append(d.name)
        elif kind == "noref":
            d.attrs = [self.unit_attr(False, False, noref_of=self.n) for _ in range(r.below(5) + 2)]
        else:
            d.attrs = [self.unit_attr(False, False)]
        if r.chance(1, 6):
            d.body = ";"
        if r.chance(1, 4):
            d.pre = ["/// documentation of the quantity"]
        d.tag = "wellformed:" + kind
        return d


# ------------------------------------------------------------------ defects (C12)

def defects(g, rng):
    """list of (class, Def or list of Defs [helpers..., malformed]) covering every defect class"""
    out = []

    def base(kind):
        return g.wellformed(kind)

    # 1 no unit
    d = base("ref")
    d.attrs = [a for a in d.attrs if a.kind == "ref_unit"]
    d.args = []
    out.append(("no_unit", d))
    d = base("noref")
    d.attrs = []
    out.append(("no_unit", d))
    # 2 two reference units
    d = base("ref")
    d.args = []
    d.attrs.insert(rng.below(len(d.attrs) + 1), g.ref_attr())
    out.append(("two_ref_units", d))
    # 3 scale on the reference unit
    d = base("ref")
    d.args = []
    for a in d.attrs:
        if a.kind == "ref_unit":
            a.toks = [t for t in a.toks[:3]] + [COMMA, number(rng.choice(["1", "1.0", "2.5"]))]
    out.append(("scale_on_ref_unit", d))
    # 4 unit without scale next to a reference unit
    d = base("ref")
    d.args = []
    us = [a for a in d.attrs if a.kind == "unit"]
    v = us[rng.below(len(us))]
    v.toks = [t for t in v.toks if t.kind != "n"]
    # remove a doubled comma left behind
    cleaned = []
    for t in v.toks:
        if t.kind == "c" and cleaned and cleaned[-1].kind == "c":
            continue
        cleaned.append(t)
    v.toks = cleaned
    out.append(("unit_without_scale_beside_ref", d))
    # 5 scale / prefix without reference unit
    d = base("noref")
    v = d.attrs[rng.below(len(d.attrs))]
    v.toks = v.toks[:3] + [COMMA, number("0.5")]
    out.append(("scale_or_prefix_without_ref", d))
    d = base("noref")
    v = d.attrs[rng.below(len(d.attrs))]
    v.toks = v.toks[:3] + [COMMA, ident("KILO")]
    out.append(("scale_or_prefix_without_ref", d))
    # 6 wrong number or kind of attribute arguments
    variants = [
        lambda a: a.toks[:1],                                              # identifier only
        lambda a: [string("x")] + a.toks[1:],                               # string instead of identifier
        lambda a: a.toks[:2] + [ident("sym")] + a.toks[3:],                 # identifier instead of symbol string
        lambda a: a.toks + [COMMA, string("d1"), COMMA, string("d2")],      # too many
        lambda a: a.toks[:3] + [COMMA, number("2"), COMMA, number("3")],    # two scales
        lambda a: [t for t in a.toks if t.kind != "c"],                     # no commas
        lambda a: a.toks[:3] + [COMMA, string("doc"), COMMA, number("2")],  # doc before scale
        lambda a: a.toks[:3] + [COMMA, Tok("p", "-"), number("2")],         # negative scale
        lambda a: [],                                                       # empty parentheses
    ]
    for k, f in enumerate(variants):
        d = base("ref" if k % 2 == 0 else "noref")
        d.args = []
        us = [a for a in d.attrs if a.kind == "unit"]
        v = us[rng.below(len(us))]
        v.toks = f(v)
        out.append(("bad_attribute_arguments", d))
    d = base("ref")
    d.args = []
    [a for a in d.attrs if a.kind == "unit"][0].parens = False
    [a for a in d.attrs if a.kind == "unit"][0].toks = []
    out.append(("bad_attribute_arguments", d))
    # 7-9 item
    d = base("ref"); d.args = []; d.body = " { a: i32 }"; out.append(("struct_fields", d))
    d = base("noref"); d.body = "(i32);"; out.append(("struct_fields", d))
    d = base("ref"); d.args = []; d.generics = "<T>"; d.body = " {}"; out.append(("generics", d))
    # every KIND of generic parameter: lifetimes and const parameters are generic parameters, too
    for gen_ in ("<'a>", "<'a, 'b>", "<const N: usize>", "<'a, T>", "<T: Copy>"):
        d = base(rng.choice(["ref", "noref"])); d.args = []; d.generics = gen_; d.body = " {}"; out.append(("generics", d))
    # every KIND of fields: tuple structs have fields as well
    for body_ in ("(i32);", "(pub AmountT, pub u8);"):
        d = base(rng.choice(["ref", "noref"])); d.args = []; d.body = body_; out.append(("struct_fields", d))
    d = base("ref"); d.args = []; d.item_kind = "enum"; out.append(("not_a_struct", d))
    d = base("noref"); d.item_kind = "fn"; out.append(("not_a_struct", d))
    # 10 derivation argument
    bad_args = [
        [ident("Xa"), Tok("p", "+"), ident("Xb")],
        [ident("Xa")],
        [ident("Xa"), Tok("p", "*"), ident("Xb"), Tok("p", "*"), ident("Xc")],
        [number("2"), Tok("p", "*"), ident("Xa")],
        [ident("Xa"), Tok("p", "/"), number("2")],
        [ident("Xa"), Tok("p", "-"), ident("Xb")],
        [string("Xa * Xb")],
    ]
    for a in bad_args:
        d = base("ref")
        d.args = a
        out.append(("bad_derivation_arg", d))
    for c, d in out:
        d.tag = c
    return out


def refbound_defects(g, rng):
    """derived definitions whose operand or result type lacks a reference unit:
    (class, [helper defs..., malformed derived def])"""
    out = []
    for which in ("lhs", "rhs", "res"):
        a, b = g.wellformed("ref"), g.wellformed("ref")
        a.args, b.args = [], []
        n = g.wellformed("noref")
        d = g.wellformed("ref")
        if which == "res":
            d = g.wellformed("noref")
        l = n if which == "lhs" else a
        r = n if which == "rhs" else b
        op = rng.choice("*/")
        d.args = [ident(l.name), Tok("p", op), ident(r.name)]
        d.tag = "derived_needs_ref_units:" + which
        out.append((d.tag, [x for x in (a, b, n) if x.name in (l.name, r.name)] + [d]))
    return out
