"""Parser for the expression / statement subset of Rust in which the trait algorithms of
src/lib.rs, src/rate.rs, src/converter.rs and the operator templates of qty-macros are
written.  Works on the token list of `rusttok` (single-character punctuation).

AST (tuples):
  ('path', [seg, ...])                 Self::new, AMNT_ONE, x
  ('qpath', ty_text, trait_text, [seg, ...])   <T as Trait>::f
  ('interp', name)                     `#name` inside quote!( )
  ('lit', kind, text)
  ('call', f, [args])   ('mcall', recv, name, [args])   ('field', recv, name)
  ('unary', op, e)      ('bin', op, l, r)     ('cast', e, ty_text)
  ('if', cond, then_block, else_or_None)       cond may be ('let', pat, e)
  ('match', scrut, [(pat, guard_or_None, e)])
  ('closure', [pat], body)
  ('block', [stmt], tail_or_None)
  ('macro', name, [tokens])            panic!(..), format!(..)
  ('struct', path_segs, [(field, e)])
  ('return', e_or_None)   ('tuple', [e])   ('index', e, i)   ('try', e)   ('range', lo, hi)
  ('for', pat, iter, block)   ('assign', op, l, r)
statements:  ('let', pat, ty_text_or_None, init_or_None)   ('expr', e, has_semi)   ('attr', [[attribute token texts]], stmt)
patterns:    ('pid', name)  ('pwild',)  ('pref', pat)  ('pts', path_segs, [pat])  ('ppath', segs)
             ('ptuple', [pat])  ('plit', text)
Anything outside the subset raises ParseError (the translator reports it as untranslatable)."""
from rusttok import is_p, matching


class ParseError(Exception):
    pass


BINPREC = {"||": 1, "&&": 2, "==": 3, "!=": 3, "<": 3, ">": 3, "<=": 3, ">=": 3,
           "|": 4, "^": 5, "&": 6, "<<": 7, ">>": 7, "+": 8, "-": 8, "*": 9, "/": 9, "%": 9}
KEYWORDS_NOT_EXPR = {"let", "fn", "impl", "struct", "enum", "trait", "use", "mod", "pub", "const", "static", "type"}


class P:
    def __init__(self, toks):
        self.t = toks
        self.i = 0

    # ---------------------------------------------------------------- basics
    def peek(self, k=0):
        j = self.i + k
        return self.t[j] if j < len(self.t) else None

    def at_p(self, s, k=0):
        t = self.peek(k)
        return t is not None and is_p(t, s)

    def at_seq(self, s, k=0):
        return all(self.at_p(c, k + n) for n, c in enumerate(s))

    def at_id(self, s=None, k=0):
        t = self.peek(k)
        return t is not None and t.kind == "ident" and (s is None or t.text == s)

    def eat_p(self, s):
        if not self.at_seq(s):
            t = self.peek()
            raise ParseError(f"expected `{s}` at line {t.line if t else '?'}, found {t.text if t else 'end'}")
        self.i += len(s)

    def eat_id(self, s=None):
        if not self.at_id(s):
            t = self.peek()
            raise ParseError(f"expected identifier {s or ''} at line {t.line if t else '?'}, found {t.text if t else 'end'}")
        self.i += 1
        return self.t[self.i - 1].text

    def done(self):
        return self.i >= len(self.t)

    def text_until_close_angle(self):
        """self.i just after `<`; returns the text up to the matching `>` and skips it"""
        depth = 1
        out = []
        while not self.done():
            t = self.peek()
            if is_p(t, "<"):
                depth += 1
            elif is_p(t, ">"):
                if self.i > 0 and is_p(self.t[self.i - 1], "-"):
                    pass
                else:
                    depth -= 1
                    if depth == 0:
                        self.i += 1
                        return " ".join(out)
            out.append(t.text)
            self.i += 1
        raise ParseError("unclosed `<`")

    # ---------------------------------------------------------------- types (kept as text)
    def type_text(self, stop):
        """tokens of a type up to one of the stop punctuation characters at depth 0"""
        depth = 0
        out = []
        while not self.done():
            t = self.peek()
            if t.kind == "punct":
                if t.text in "(<[":
                    depth += 1
                elif t.text in ")]":
                    if depth == 0:
                        break
                    depth -= 1
                elif t.text == ">":
                    if not (self.i > 0 and is_p(self.t[self.i - 1], "-")):
                        if depth == 0:
                            break
                        depth -= 1
                elif depth == 0 and t.text in stop:
                    break
            out.append(t.text)
            self.i += 1
        return " ".join(out)

    # ---------------------------------------------------------------- patterns
    def pattern(self):
        if self.at_p("&"):
            self.i += 1
            if self.at_id("mut"):
                self.i += 1
            return ("pref", self.pattern())
        if self.at_p("("):
            self.i += 1
            ps = []
            while not self.at_p(")"):
                ps.append(self.pattern())
                if self.at_p(","):
                    self.i += 1
            self.i += 1
            return ("ptuple", ps)
        t = self.peek()
        if t is None:
            raise ParseError("pattern expected")
        if t.kind in ("int", "float", "str", "char"):
            self.i += 1
            return ("plit", t.text)
        if t.kind == "ident":
            if t.text == "_":
                self.i += 1
                return ("pwild",)
            if t.text in ("mut", "ref"):
                self.i += 1
                return self.pattern()
            segs = [self.eat_id()]
            while self.at_seq("::"):
                self.i += 2
                segs.append(self.eat_id())
            if self.at_p("("):
                self.i += 1
                ps = []
                while not self.at_p(")"):
                    ps.append(self.pattern())
                    if self.at_p(","):
                        self.i += 1
                self.i += 1
                return ("pts", segs, ps)
            if len(segs) == 1 and (segs[0][0].islower() or segs[0][0] == "_"):
                return ("pid", segs[0])
            return ("ppath", segs)
        raise ParseError(f"pattern not understood at line {t.line}: {t.text}")

    # ---------------------------------------------------------------- blocks / statements
    def block(self):
        self.eat_p("{")
        stmts = []
        tail = None
        pending = []

        def push(st):
            # ('attr', [token texts of each attribute], statement)
            if pending:
                stmts.append(("attr", list(pending), st))
                del pending[:]
            else:
                stmts.append(st)
        while not self.at_p("}"):
            if self.done():
                raise ParseError("unclosed block")
            if self.at_p(";"):
                self.i += 1
                continue
            if self.at_p("#") and (self.at_p("[", 1)):
                # an attribute on a statement (`#[cfg(...)] let x = ...;`): kept with the statement
                close = matching(self.t, self.i + 1)
                pending.append([t.text for t in self.t[self.i + 2:close]])
                self.i = close + 1
                continue
            if self.at_id("let"):
                self.i += 1
                pat = self.pattern()
                ty = None
                if self.at_p(":"):
                    self.i += 1
                    ty = self.type_text("=;")
                init = None
                if self.at_p("="):
                    self.i += 1
                    init = self.expr()
                self.eat_p(";")
                push(("let", pat, ty, init))
                continue
            if self.at_id("if") or self.at_id("match") or self.at_id("for") or self.at_p("{"):
                # a block-like expression at statement position ends the statement
                e = self.primary(False)
                if self.at_p(".") or self.at_p("?"):
                    e = self.postfix(e)
            else:
                e = self.expr(stmt=True)
            if self.at_p(";"):
                self.i += 1
                push(("expr", e, True))
            elif self.at_p("}"):
                if pending:
                    raise ParseError("attribute on the value of a block")
                tail = e
            elif e[0] in ("if", "match", "block", "for"):
                push(("expr", e, False))
            else:
                t = self.peek()
                raise ParseError(f"`;` or `}}` expected at line {t.line}, found {t.text}")
        self.i += 1
        return ("block", stmts, tail)

    # ---------------------------------------------------------------- expressions
    def binop_at(self):
        """binary operator at the cursor -> (op, token count) or None"""
        t = self.peek()
        if t is None or t.kind != "punct":
            return None
        c = t.text
        n1 = self.peek(1)
        nx = n1.text if n1 is not None and n1.kind == "punct" else ""
        n2 = self.peek(2)
        nxx = n2.text if n2 is not None and n2.kind == "punct" else ""
        if c == "=" and nx == "=":
            return ("==", 2)
        if c == "!" and nx == "=":
            return ("!=", 2)
        if c == "<" and nx == "=":
            return ("<=", 2)
        if c == ">" and nx == "=":
            return (">=", 2)
        if c == "&" and nx == "&":
            return ("&&", 2)
        if c == "|" and nx == "|":
            return ("||", 2)
        if c == "<" and nx == "<" and nxx != "=":
            return ("<<", 2)
        if c == ">" and nx == ">" and nxx != "=":
            return (">>", 2)
        if c in "+-*/%^&|" and nx == "=":
            return None        # compound assignment, handled by the caller
        if c == "=" and nx == ">":
            return None
        if c in "+-*/%<>&|^":
            return (c, 1)
        return None

    def expr(self, stmt=False, no_struct=False):
        e = self.binary(1, no_struct)
        # assignment / compound assignment
        t = self.peek()
        if t is not None and t.kind == "punct":
            if t.text == "=" and not self.at_p("=", 1) and not self.at_p(">", 1):
                self.i += 1
                return ("assign", "=", e, self.expr(no_struct=no_struct))
            if t.text in "+-*/%^&|" and self.at_p("=", 1):
                self.i += 2
                return ("assign", t.text + "=", e, self.expr(no_struct=no_struct))
            if t.text == "." and self.at_p(".", 1):
                self.i += 2
                if self.at_p("="):
                    self.i += 1
                hi = self.binary(1, no_struct)
                return ("range", e, hi)
        return e

    def binary(self, minprec, no_struct):
        lhs = self.unary(no_struct)
        while True:
            if self.at_id("as"):
                self.i += 1
                lhs = ("cast", lhs, self.type_text(",;)]}=+-*/%<>&|^?"))
                continue
            op = self.binop_at()
            if op is None:
                return lhs
            name, n = op
            prec = BINPREC[name]
            if prec < minprec:
                return lhs
            self.i += n
            rhs = self.binary(prec + 1, no_struct)
            lhs = ("bin", name, lhs, rhs)

    def unary(self, no_struct):
        t = self.peek()
        if t is None:
            raise ParseError("expression expected")
        if t.kind == "punct":
            if t.text == "-":
                self.i += 1
                return ("unary", "-", self.unary(no_struct))
            if t.text == "!":
                self.i += 1
                return ("unary", "!", self.unary(no_struct))
            if t.text == "*":
                self.i += 1
                return ("unary", "*", self.unary(no_struct))
            if t.text == "&":
                self.i += 1
                if self.at_id("mut"):
                    self.i += 1
                return ("unary", "&", self.unary(no_struct))
        return self.postfix(self.primary(no_struct))

    def args(self):
        self.eat_p("(")
        out = []
        while not self.at_p(")"):
            out.append(self.expr())
            if self.at_p(","):
                self.i += 1
            elif not self.at_p(")"):
                t = self.peek()
                raise ParseError(f"`,` or `)` expected at line {t.line if t else '?'}")
        self.i += 1
        return out

    def postfix(self, e):
        while True:
            if self.at_p("(") and e[0] in ("path", "qpath", "field", "call", "mcall", "interp"):
                e = ("call", e, self.args())
            elif self.at_p(".") and not self.at_p(".", 1):
                self.i += 1
                t = self.peek()
                if t is not None and t.kind == "int":
                    self.i += 1
                    e = ("field", e, t.text)
                    continue
                name = self.eat_id()
                if self.at_seq("::"):
                    self.i += 2
                    self.eat_p("<")
                    self.text_until_close_angle()
                if self.at_p("("):
                    e = ("mcall", e, name, self.args())
                else:
                    e = ("field", e, name)
            elif self.at_p("?"):
                self.i += 1
                e = ("try", e)
            elif self.at_p("["):
                self.i += 1
                ix = self.expr()
                self.eat_p("]")
                e = ("index", e, ix)
            else:
                return e

    def path_segments(self):
        segs = [self.eat_id()]
        while self.at_seq("::"):
            self.i += 2
            if self.at_p("<"):
                self.i += 1
                self.text_until_close_angle()
                continue
            segs.append(self.eat_id())
        return segs

    def primary(self, no_struct):
        t = self.peek()
        if t.kind in ("int", "float", "str", "char"):
            self.i += 1
            return ("lit", t.kind, t.text)
        if t.kind == "punct":
            if t.text == "(":
                self.i += 1
                if self.at_p(")"):
                    self.i += 1
                    return ("tuple", [])
                e = self.expr()
                if self.at_p(","):
                    items = [e]
                    while self.at_p(","):
                        self.i += 1
                        if self.at_p(")"):
                            break
                        items.append(self.expr())
                    self.eat_p(")")
                    return ("tuple", items)
                self.eat_p(")")
                return ("paren", e)
            if t.text == "{":
                return self.block()
            if t.text == "|":
                self.i += 1
                params = []
                if self.at_p("|"):
                    self.i += 1
                else:
                    while not self.at_p("|"):
                        params.append(self.pattern())
                        if self.at_p(":"):
                            self.i += 1
                            self.type_text(",|")
                        if self.at_p(","):
                            self.i += 1
                    self.i += 1
                body = self.expr()
                return ("closure", params, body)
            if t.text == "<":
                self.i += 1
                inner = self.text_until_close_angle()
                ty, _, tr = inner.partition(" as ")
                self.eat_p("::")
                return ("qpath", ty.strip(), tr.strip(), self.path_segments())
            if t.text == "#" and self.at_id(None, 1):
                self.i += 2
                return ("interp", self.t[self.i - 1].text)
            raise ParseError(f"expression not understood at line {t.line}: `{t.text}`")
        if t.kind != "ident":
            raise ParseError(f"expression not understood at line {t.line}: `{t.text}`")
        if t.text in KEYWORDS_NOT_EXPR:
            raise ParseError(f"item or statement `{t.text}` where an expression is expected (line {t.line})")
        if t.text == "if":
            return self.if_expr()
        if t.text == "match":
            self.i += 1
            scrut = self.expr(no_struct=True)
            self.eat_p("{")
            arms = []
            while not self.at_p("}"):
                pat = self.pattern()
                while self.at_p("|"):
                    raise ParseError("alternative patterns are outside the subset")
                guard = None
                if self.at_id("if"):
                    self.i += 1
                    guard = self.expr(no_struct=True)
                self.eat_p("=>")
                body = self.expr()
                arms.append((pat, guard, body))
                if self.at_p(","):
                    self.i += 1
            self.i += 1
            return ("match", scrut, arms)
        if t.text == "return":
            self.i += 1
            if self.at_p(";") or self.at_p("}"):
                return ("return", None)
            return ("return", self.expr())
        if t.text == "for":
            self.i += 1
            pat = self.pattern()
            self.eat_id("in")
            it = self.expr(no_struct=True)
            return ("for", pat, it, self.block())
        if t.text in ("while", "loop", "unsafe", "async", "move", "break", "continue"):
            raise ParseError(f"`{t.text}` is outside the subset (line {t.line})")
        segs = self.path_segments()
        if self.at_p("!") and not self.at_p("=", 1):
            self.i += 1
            t2 = self.peek()
            if t2 is None or t2.kind != "punct" or t2.text not in "([{":
                raise ParseError("macro invocation without delimiters")
            close = matching(self.t, self.i)
            body = self.t[self.i + 1:close]
            self.i = close + 1
            return ("macro", "::".join(segs), body)
        if self.at_p("{") and not no_struct and segs[-1][:1].isupper():
            # struct literal: Name { a, b: e, .. }
            self.i += 1
            fields = []
            while not self.at_p("}"):
                if self.at_p("."):
                    raise ParseError(f"struct update syntax is outside the subset (line {t.line})")
                fname = self.eat_id()
                if self.at_p(":"):
                    self.i += 1
                    fields.append((fname, self.expr()))
                else:
                    fields.append((fname, ("path", [fname])))
                if self.at_p(","):
                    self.i += 1
            self.i += 1
            return ("struct", segs, fields)
        return ("path", segs)

    def if_expr(self):
        self.eat_id("if")
        if self.at_id("let"):
            self.i += 1
            pat = self.pattern()
            self.eat_p("=")
            cond = ("let", pat, self.expr(no_struct=True))
        else:
            cond = self.expr(no_struct=True)
        then = self.block()
        els = None
        if self.at_id("else"):
            self.i += 1
            els = self.if_expr() if self.at_id("if") else self.block()
        return ("if", cond, then, els)


def parse_block(toks):
    """toks: `{ ... }` including the braces"""
    p = P(toks)
    b = p.block()
    if not p.done():
        raise ParseError("tokens after the block")
    return b


def parse_params(toks):
    """parameter list tokens (between the parentheses) -> [(name, type text)]; self forms get type 'Self'"""
    p = P(toks)
    out = []
    while not p.done():
        if p.at_p("&"):
            p.i += 1
            if p.peek() is not None and p.peek().kind == "lifetime":
                p.i += 1
            if p.at_id("mut"):
                p.i += 1
            if p.at_id("self"):
                p.i += 1
                out.append(("self", "&Self"))
            else:
                raise ParseError("parameter not understood")
        elif p.at_id("mut"):
            p.i += 1
            continue
        elif p.at_id("self"):
            p.i += 1
            out.append(("self", "Self"))
        else:
            name = p.eat_id()
            p.eat_p(":")
            out.append((name, p.type_text(",")))
        if p.at_p(","):
            p.i += 1
    return out


def show(e, ind=0):
    """debug printer"""
    return repr(e)
