"""C08 — Construction and scaling by numbers are exact and unit-preserving."""
from world import amounts, specials

ID = "C08"
LEAN_MODULES = ["QtyModel.Props.C08", "QtyModel.Props.TieScalar"]
HARNESS_GROUPS = ()
RULE = ("every unit of every quantity type (with reference unit, without, single-unit, dimensionless, "
        "astronomical in f64, synthetic) x amount classes incl. zero/-0/inf/NaN/subnormal (f64) and boundary "
        "coefficients (decimal); ops new (3 constructor forms) and smul (k*q, q*k, q/k); "
        "non-trivial = distinct op lines whose amount is neither zero nor one")
ASSUMPTIONS = ["the amount type's own * and / are the modelled ones (IEEE-754 RNE; fpdec 0.11)"]


def gen(w, rng, tier):
    ops = []
    nrand = 2 if tier == "quick" else 12
    for t in w.types:
        for i, _ in enumerate(t["units"]):
            ams = amounts(w.be, rng, nrand) + specials(w.be)
            for lab, a in ams:
                ops.append((f"new:{lab}", f"new {t['name']} {i} {a}"))
            ks = amounts(w.be, rng, 1) + specials(w.be)
            picks = ams if tier == "thorough" else [rng.choice(ams) for _ in range(4)]
            for lab, a in picks:
                for klab, k in (ks if tier == "thorough" else [rng.choice(ks) for _ in range(3)] + [ks[0]]):
                    ops.append((f"smul:{lab}*{klab}", f"smul {t['name']} {i} {a} {k}"))
    return ops


def nontrivial(c):
    return not any(z in c.label for z in (":zero", ":one"))
