"""C05 — Derived results use the natural or the best-fitting unit."""
from fractions import Fraction

from world import amounts, enc_frac, amount_value, enc_f64, dec_f64, f64_next, enc_dec, dec_dec

ID = "C05"
LEAN_MODULES = ["QtyModel.Props.C05", "QtyModel.Props.Backends", "QtyModel.Props.TieFit", "QtyModel.Props.TieTemplates", "QtyModel.Props.OracleSoundC05", "QtyModel.Props.Bridge", "QtyModel.Props.Bridge2"]
HARNESS_GROUPS = ('g_derived',)
RULE = ("every derived operator instance x every operand unit pair x amounts built so that the result magnitude lands "
        "exactly on, one ulp/last digit below and above every unit scale of the result type, plus zero, negative and "
        "random results; and _fit driven directly on every type with the same sweep; non-trivial = result magnitude non-zero")


def around(be, enc):
    out = [enc]
    if be == "f64":
        x = dec_f64(enc)
        if x == x and abs(x) != float("inf"):
            out += [enc_f64(f64_next(x, True)), enc_f64(f64_next(x, False))]
    else:
        c, n = dec_dec(enc)
        out += [enc_dec(c + 1, n), enc_dec(c - 1, n)]
        # ... and at the full resolution of the type: the value +- a few units of the 18th fractional digit (a
        # quotient by the scale then differs from 1 by less than the rounding of the division)
        if n < 18:
            full = c * 10 ** (18 - n)
            for k in (1, 4, 5, 6):
                for cc in (full + k, full - k):
                    if abs(cc) < 2 ** 127:
                        out.append(enc_dec(cc, 18))
    return out


def gen(w, rng, tier):
    ops = []
    # _fit directly: exactly on / beside every unit scale, zero, negative, tiny, huge
    for t in w.withref():
        for u in t["units"]:
            s = u["scale_val"]
            for k in (Fraction(1), Fraction(-1), Fraction(1, 2), Fraction(3)):
                for e in around(w.be, enc_frac(w.be, s * k)):
                    ops.append(("fit:on-scale" if k == 1 else "fit:scaled", f"fit {t['name']} {e}"))
        for lab, a in amounts(w.be, rng, 6 if tier == "quick" else 30):
            ops.append((f"fit:{lab}", f"fit {t['name']} {a}"))
    # derived operators: result magnitude lands on each unit scale of the result type
    per_pair_all = tier == "thorough"
    for (op, l, r, o) in w.derived():
        tl, tr, to = w.by_name[l], w.by_name[r], w.by_name[o]
        for i in range(tl["n"]):
            for j in range(tr["n"]):
                sl, sr = tl["units"][i]["scale_val"], tr["units"][j]["scale_val"]
                targets = to["units"] if per_pair_all else [rng.choice(to["units"])]
                for tu in targets:
                    sv = tu["scale_val"]
                    b_val = Fraction(rng.choice([1, 2, 4, 5, 10]))
                    # magnitude = a*sl (op) b*sr  == sv
                    if op == "mul":
                        a_val = sv / (sl * sr * b_val)
                    else:
                        a_val = sv * (sr * b_val) / sl
                    b = enc_frac(w.be, b_val)
                    for e in around(w.be, enc_frac(w.be, a_val)):
                        ops.append((f"d{op}:on-scale", f"d{op}u {l} {r} {o} {i} {e} {j} {b}"))
                la, a = rng.choice(amounts(w.be, rng, 2))
                lb, b = rng.choice(amounts(w.be, rng, 2))
                ops.append((f"d{op}:{la}:{lb}", f"d{op}u {l} {r} {o} {i} {a} {j} {b}"))
    return ops


def nontrivial(c):
    return "zero" not in c.label
