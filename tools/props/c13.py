"""C13 — Rates relate two quantities consistently."""
from world import amounts, specials

ID = "C13"
LEAN_MODULES = ["QtyModel.Props.C13", "QtyModel.Props.Backends", "QtyModel.Props.TieDiv", "QtyModel.Props.TieNoRefDiv", "QtyModel.Props.TieKinds", "QtyModel.Props.TieRate", "QtyModel.Props.OracleSoundC13", "QtyModel.Props.C13Generated"]
HARNESS_GROUPS = ('g_rate',)
RATE_TYPES = ["Length", "Duration", "Mass", "DataVolume", "Temperature", "AmountT", "S:Su", "S:Sn", "S:Sa", "S:Se"]
RULE = ("ordered pairs of quantity types from a representative set (with reference unit, dimensionless, single-unit, "
        "without reference unit) x term/per/operand units x amount classes; ops: accessors+reciprocal+from_qty_vals, "
        "rate*q / q*rate / (rate*q)/rate, q/rate / q*reciprocal / rate*(q/rate); oracle = propagated rounding bound on the "
        "exact rational value; non-trivial = all amounts non-zero")


def gen(w, rng, tier):
    ops = []
    types = [t for t in RATE_TYPES if t in w.by_name]
    per = 3 if tier == "quick" else 25
    for tq in types:
        for pq in types:
            tt, tp = w.by_name[tq], w.by_name[pq]
            for _ in range(per):
                ams = amounts(w.be, rng, 3)
                nz = [a for a in ams if "zero" not in a[0]]
                lta, ta = rng.choice(nz)
                lpm, pm = rng.choice(nz + [("one", nz[0][1])])
                if rng.chance(1, 4):
                    pm = [a for l, a in ams if l == "one"][0]
                tu, pu = rng.below(tt["n"]), rng.below(tp["n"])
                head = f"rate {tq} {pq} {ta} {tu} {pm} {pu}"
                ops.append(("acc", f"{head} acc"))
                for _ in range(2):
                    lq, qa = rng.choice(ams + (specials(w.be)[:2] if rng.chance(1, 8) else []))
                    qi = rng.below(tp["n"]) if not rng.chance(1, 3) else pu
                    ops.append((f"mulq:{lq}", f"{head} mulq {qi} {qa}"))
                    lq, qa = rng.choice(ams)
                    qi = rng.below(tt["n"]) if not rng.chance(1, 3) else tu
                    ops.append((f"divq:{lq}", f"{head} divq {qi} {qa}"))
    return ops


def nontrivial(c):
    return "zero" not in c.label
