"""C04 — Derived products and quotients preserve the physical value."""
from fractions import Fraction

from world import amounts, specials, enc_frac

ID = "C04"
LEAN_MODULES = ["QtyModel.Props.C04", "QtyModel.Props.C04RoundTrip", "QtyModel.Props.Backends", "QtyModel.Props.OracleSound", "QtyModel.Props.TieTemplates", "QtyModel.Props.OracleSoundC04", "QtyModel.Props.Bridge2"]
HARNESS_GROUPS = ('g_derived',)
# kinds of difference in the macro-level correspondence (tools/macrofront.py) that are failing inputs here
MACRO_PARTS = ("impls", "items")
RULE = ("every operator instance the model predicts from the declarations (catalogue 34, astronomical, synthetic) x "
        "every unit pair of the operand types x amount pairs x the four owned/borrowed forms; oracle = exact-rational "
        "bound on the result's reference-unit magnitude; two-step chains (x*y)/y and (x/y)*y on every unit pair, the "
        "second step on the implementation's own intermediate, oracle = conclusion of mul_then_div_mag / "
        "div_then_mul_mag; non-trivial = both amounts non-zero and finite")


def gen(w, rng, tier):
    ops = []
    per = 2 if tier == "quick" else 10
    for (op, l, r, o) in w.derived():
        tl, tr = w.by_name[l], w.by_name[r]
        for i in range(tl["n"]):
            for j in range(tr["n"]):
                ams = amounts(w.be, rng, 3)
                for _ in range(per):
                    la, a = rng.choice(ams)
                    lb, b = rng.choice(ams)
                    if rng.chance(1, 12):
                        lb, b = rng.choice(specials(w.be))
                    ops.append((f"d{op}:{la}:{lb}", f"d{op} {l} {r} {o} {i} {a} {j} {b}"))
                if l == r and i == j:
                    la, a = rng.choice(amounts(w.be, rng, 2))
                    ops.append((f"d{op}:same-object:{la}", f"d{op} {l} {r} {o} {i} {a} {j} {a}"))
                if l == r and i != j:
                    # the two operands of a square are the SAME magnitude written in two units (1 km * 1000 m):
                    # values that compare equal although amounts and units differ
                    si, sj = tl["units"][i]["scale_val"], tr["units"][j]["scale_val"]
                    if si and sj:
                        k = Fraction(rng.below(999) + 1, [1, 10, 1000][rng.below(3)])
                        ops.append((f"d{op}:same-magnitude", f"d{op} {l} {r} {o} {i} {enc_frac(w.be, k)} {j} {enc_frac(w.be, k * si / sj)}"))
    # two-step chains: (x * y) / y and (x / y) * y wherever the declarations provide both operators;
    # the second step runs on what the implementation returned for the first
    ds = set(w.derived())
    for (op, l, r, o) in sorted(ds):
        inv = "div" if op == "mul" else "mul"
        if (inv, o, r, l) not in ds:
            continue
        tl, tr = w.by_name[l], w.by_name[r]
        chain = "dmd" if op == "mul" else "ddm"
        for i in range(tl["n"]):
            for j in range(tr["n"]):
                ams = amounts(w.be, rng, 3)
                for _ in range(per):
                    la, a = rng.choice(ams)
                    lb, b = rng.choice(ams)
                    ops.append((f"{chain}:{la}:{lb}", f"{chain} {l} {r} {o} {i} {a} {j} {b}"))
    return ops


def nontrivial(c):
    return "zero" not in c.label and "inf" not in c.label and "nan" not in c.label
