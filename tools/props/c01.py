"""C01 — Unit conversion preserves the physical value."""
from world import amounts, specials

ID = "C01"
LEAN_MODULES = ["QtyModel.Props.C01", "QtyModel.Props.Backends", "QtyModel.Props.OracleSound", "QtyModel.Props.TieConv"]
HARNESS_GROUPS = ()
RULE = ("every ordered unit pair (incl. same unit) of every quantity type with a reference unit (catalogue, "
        "dimensionless, astronomical in f64, synthetic) x amount classes; op conv = convert + equiv_amount; "
        "oracle = exact-rational magnitude bound; non-trivial = different units and a non-zero finite amount")


def gen(w, rng, tier):
    ops = []
    per = 5 if tier == "quick" else 30
    for t in w.withref():
        n = t["n"]
        for (i, j) in w.pairs(t, rng):
            if True:
                ams = amounts(w.be, rng, 3)
                picks = [rng.choice(ams) for _ in range(per)]
                if rng.chance(1, 4):
                    picks.append(rng.choice(specials(w.be)))
                for lab, a in picks:
                    ops.append((f"conv:{'same' if i == j else 'diff'}:{lab}", f"conv {t['name']} {i} {j} {a}"))
    return ops


def nontrivial(c):
    return ":diff:" in c.label and "zero" not in c.label
