"""C10 — Quantities without a reference unit never mix units silently."""
from world import amounts, specials

ID = "C10"
LEAN_MODULES = ["QtyModel.Props.C10", "QtyModel.Props.TieNoRefCmp", "QtyModel.Props.TieNoRefAddSub", "QtyModel.Props.TieNoRefDiv", "QtyModel.Props.TieKindsNoRefCmp", "QtyModel.Props.TieKindsNoRefAddSub", "QtyModel.Props.TieKindsNoRefDiv"]
HARNESS_GROUPS = ()
RULE = ("all types without reference unit (Temperature, synthetic no-ref, single-unit) x all ordered unit pairs x "
        "amount pairs (equal amounts in different units included) x ops cmp/add/sub/div; "
        "non-trivial = distinct op lines with two different units or a non-zero amount")


def gen(w, rng, tier):
    ops = []
    per = 6 if tier == "quick" else 40
    for t in w.noref():
        n = t["n"]
        for (i, j) in w.pairs(t, rng):
            if True:
                ams = amounts(w.be, rng, 3) + specials(w.be)
                for _ in range(per):
                    la, a = rng.choice(ams)
                    lb, b = (la, a) if rng.chance(1, 3) else rng.choice(ams)
                    for op in ("cmp", "add", "sub", "div"):
                        if op == "cmp" and t["kind"] == "single":
                            continue
                        ops.append((f"{op}:{'same' if i == j else 'diff'}-unit", f"{op} {t['name']} {i} {a} {j} {b}"))
    return ops


def nontrivial(c):
    return True
