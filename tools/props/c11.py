"""C11 — Generated types reflect their declaration in any order or literal form (partial: syn/rustc modelled)."""
import copy
import os
import subprocess

import compilecheck as cc
import defgen
import gen_harness
import pipeline as pl
from world import Rng, World

ID = "C11"
LEAN_MODULES = ["QtyModel.Props.C11", "QtyModel.Props.TieAnalyze", "QtyModel.Props.TieCodegen", "QtyModel.Props.TieConstants"]
HARNESS_GROUPS = ()
# kinds of difference in the macro-level correspondence (tools/macrofront.py) that are failing inputs here
MACRO_PARTS = ("verdict:rejected", "units", "consts", "variants", "impls", "arms", "items")
RULE = ("seeded random well-formed definitions (1..10 units, identifiers with digits/acronyms/underscores, symbols incl. "
        "non-ASCII, integer/float/exponent literal forms, optional SI prefix and doc, attributes in random order, with / "
        "without reference unit, single unit, derived A*B, A*A, A/B, AmountT/B), each also as a twin with permuted "
        "attributes, compiled with the REAL macro in both back-ends; registry dump and an operator script compared with the "
        "model of the macro; non-trivial = each generated definition")
TRUSTED_EXTRA = ["modelled: syn's parsing of attribute arguments (token-level model of UnitDef::parse), convert_case on "
                 "ASCII identifiers, rustc's expansion of the generated items"]


def gen(w, rng, tier):
    return []


def twin_of(d, rng):
    t = copy.deepcopy(d)
    t.name = d.name + "T"
    for a in t.attrs:
        a.toks[0] = defgen.ident(a.toks[0].text + "_t")
    t.attrs = rng.shuffle(t.attrs)
    t.args = []
    t.tag = d.tag + ":twin"
    return t


def build_variant(root, be, defs, items_path, key):
    rc, dump = pl.sh([pl.DRIVER, be, "dumpf", items_path])
    if rc != 0:
        raise pl.Broken("model.dumpf", dump)
    types, impls, failed = gen_harness.parse_dump(dump)
    vdir = os.path.join(root, f"h_{key}_{be}")
    os.makedirs(os.path.join(vdir, "src"), exist_ok=True)
    import shutil
    for f in ("main.rs", "ops_extra.rs", "ops_fmt.rs"):
        shutil.copy(os.path.join(pl.VERIF, "harness/src", f), os.path.join(vdir, "src", f))
    src = ["#![allow(missing_docs, non_camel_case_types, non_upper_case_globals)]", "use quantities::prelude::*;", ""]
    for d in defs:
        src += d.rust_lines()[0] + [""]
    with open(os.path.join(vdir, "src/synth.rs"), "w", encoding="utf-8") as f:
        f.write("\n".join(src) + "\n")
    names = {t["name"] for t in types}
    saved = (gen_harness.RATE_TYPES, gen_harness.TCONV_TYPES)
    gen_harness.RATE_TYPES = ["AmountT"] + [t["name"] for t in types if t["name"] != "AmountT"][:3]
    gen_harness.TCONV_TYPES = [t["name"] for t in types if t["name"] != "AmountT"][:2]
    try:
        code = gen_harness.generate(types, impls, dict(catalogue=[]))
    finally:
        gen_harness.RATE_TYPES, gen_harness.TCONV_TYPES = saved
    with open(os.path.join(vdir, "src/gen_dispatch.rs"), "w", encoding="utf-8") as f:
        f.write(code)
    with open(os.path.join(vdir, "Cargo.toml"), "w") as f:
        f.write(gen_harness.cargo_toml(pl.REPO, []))
    shutil.copy(os.path.join(pl.REPO, "Cargo.lock"), os.path.join(vdir, "Cargo.lock"))
    os.makedirs(os.path.join(vdir, ".cargo"), exist_ok=True)
    with open(os.path.join(vdir, ".cargo/config.toml"), "w") as f:
        f.write("[net]\noffline = true\n")
    tdir = os.path.join(pl.CACHE, f"target-gen-{key}-{be}")
    env = dict(pl.ENV, CARGO_TARGET_DIR=tdir, RUSTFLAGS="-Awarnings")
    p = subprocess.run(["cargo", "build", "--features", "g_derived,g_rate,g_tconv" + (",dec" if be == "dec" else ""), "--message-format=short"],
                       cwd=vdir, env=env, stdout=subprocess.PIPE, stderr=subprocess.STDOUT, text=True, timeout=3600)
    return p.returncode == 0, p.stdout, os.path.join(tdir, "debug/harness"), dump, failed


def script(w, rng, tier):
    """registry, constructors and lookups (compared strictly with the model of the macro), plus one
    line per operator kind and type to see that the full set of operators exists (values of the
    operators are the business of C01-C05, C13, C15)"""
    import props.c01 as c01, props.c03 as c03, props.c02 as c02, props.c04 as c04
    import props.c08 as c08, props.c09 as c09, props.c15 as c15
    ops = []
    for m in (c09, c08):
        ops += [("strict:" + lab, l) for lab, l in m.gen(w, rng, "quick")]
    for m in (c01, c03, c02, c04, c15):
        part = m.gen(w, rng, "quick")
        seen = set()
        for lab, l in part:
            key = tuple(l.split(" ")[:2]) if not l.startswith("d") else tuple(l.split(" ")[:4])
            if key not in seen:
                seen.add(key)
                ops.append(("exists:" + lab, l))
    return ops


def extra(tier, seed):
    cov = dict(definitions=0, programs=0, script_lines=0, twins=0)
    fails, broken = [], []
    rng = Rng(seed * 104729 + 11)
    g = defgen.Gen(rng)
    n = 12 if tier == "quick" else 60
    kinds = ["ref", "ref", "noref", "single", "ref", "derived", "derived", "ref", "derived"]
    defs = []
    for i in range(n):
        d = g.wellformed(kinds[i] if i < len(kinds) else None)
        defs.append(d)
        if rng.chance(1, 2) and not d.args:
            defs.append(twin_of(d, rng))
            cov["twins"] += 1
    cov["definitions"] = len(defs)
    with cc.TempRoot() as root:
        items_path = os.path.join(root, "items.txt")
        with open(items_path, "w", encoding="utf-8") as f:
            f.write("\n".join(d.item_text() for d in defs) + "\n")
        for be in ("f64", "dec"):
            ok, out, binp, dump, failed = build_variant(root, be, defs, items_path, "c11")
            cov["programs"] += 1
            if failed:
                broken.append(pl.Broken("corr.C11.model-rejects-wellformed", f"{be}: the model rejects {failed[:3]}"))
            if not ok:
                what = "a crate of well-formed generated definitions does not compile"
                fails.append(dict(backend=be, what=what, rustc=out[-2500:],
                                  definitions="\n".join("\n".join(d.rust_lines()[0]) for d in defs)[:6000],
                                  oracle="FAIL:" + what))
                continue
            w = World(be, dump)
            ops = script(w, rng, tier)
            lines = [l for _, l in ops]
            strict = [lab.startswith("strict:") for lab, _ in ops]
            ops_p, impl_p = os.path.join(root, f"ops_{be}.txt"), os.path.join(root, f"impl_{be}.txt")
            with open(ops_p, "w", encoding="utf-8") as f:
                f.write("\n".join(lines) + "\n")
            with open(ops_p) as fin, open(impl_p, "w") as fout:
                subprocess.run([binp], stdin=fin, stdout=fout, timeout=1800)
            rc, mout = pl.sh([pl.DRIVER, be, "runf", items_path, ops_p, impl_p])
            impl = open(impl_p, encoding="utf-8").read().split("\n")
            model = mout.split("\n")
            regs = {}
            for i, l in enumerate(lines):
                cov["script_lines"] += 1
                io = impl[i] if i < len(impl) else "<missing>"
                m, _, v = (model[i] if i < len(model) else "<missing>\tskip").partition("\t")
                if l.startswith("reg "):
                    regs[l.split(" ")[1]] = io
                known_dec_prec = be == "dec" and l.startswith("fmt ") and v.startswith("FAIL:amount does not have exactly")
                if v.startswith("FAIL") and not known_dec_prec and strict[i]:
                    fails.append(dict(backend=be, op=l, impl=io, model=m, what=v, oracle=v,
                                      definition=def_text(defs, l)))
                    break
                if not strict[i]:
                    if any(x in io for x in ("bad-op", "no-such-impl", "no-such-type", "<missing>")):
                        what = "an operator / constructor / formatter the declaration entitles to is missing"
                        fails.append(dict(backend=be, op=l, impl=io, model=m, what=what, oracle="FAIL:" + what,
                                          definition=def_text(defs, l)))
                        break
                    continue
                if io != m:
                    what = "generated type does not expose what its declaration says (model of the macro disagrees)"
                    fails.append(dict(backend=be, op=l, impl=io, model=m, what=what, oracle="FAIL:" + what,
                                      definition=def_text(defs, l)))
                    break
            # permuting the attributes changes nothing but the order of equal-scale units
            for d in defs:
                if d.tag.endswith(":twin"):
                    a, b = regs.get("S:" + d.name[:-1]), regs.get("S:" + d.name)
                    if a and b and not same_up_to_ties(a, b, be):
                        what = "reordering the unit attributes changes more than the order of equal-scale units"
                        fails.append(dict(backend=be, original=a, permuted=b, what=what, oracle="FAIL:" + what,
                                          definition="\n".join(d.rust_lines()[0])))
    cov["evaluations"] = cov["script_lines"]
    cov["distinct_nontrivial"] = cov["definitions"]
    cov["samples"] = ["\n".join(d.rust_lines()[0]) for d in defs[:2]]
    return cov, fails, broken


def def_text(defs, line):
    for d in defs:
        if ("S:" + d.name + " ") in line + " ":
            return "\n".join(d.rust_lines()[0])
    return ""


def rows_of(reg, be):
    from world import amount_value
    head, *rows = reg.split(" | ")
    out = []
    for r in rows:
        ident, name, sym, pf, sc, const = r.split(",")
        # units share a scale when the VALUES are equal (`0.5` and `0.50` are one scale, though the decimal
        # back-end keeps their digit counts apart)
        key = "-" if sc == "-" else str(amount_value(be, sc))
        out.append((key, sc, sym, pf))
    return head.split(" ")[0], out


def same_up_to_ties(a, b, be="f64"):
    (na, ra), (nb, rb) = rows_of(a, be), rows_of(b, be)
    if na != nb or [r[0] for r in ra] != [r[0] for r in rb]:
        # without reference unit the order is by NAME, and the twin has other names: compare as sets
        if all(r[0] == "-" for r in ra):
            return sorted(ra) == sorted(rb)
        return False
    groups_a, groups_b = {}, {}
    for r in ra:
        groups_a.setdefault(r[0], set()).add(r[1:])
    for r in rb:
        groups_b.setdefault(r[0], set()).add(r[1:])
    return groups_a == groups_b
