"""C03 — Sum, difference and ratio of like quantities honour units."""
from world import amounts, specials

ID = "C03"
LEAN_MODULES = ["QtyModel.Props.C03", "QtyModel.Props.Backends", "QtyModel.Props.OracleSound", "QtyModel.Props.TieConv", "QtyModel.Props.TieAddSub", "QtyModel.Props.TieDiv", "QtyModel.Props.TieKindsRefAddSub", "QtyModel.Props.TieKindsRefDiv"]
HARNESS_GROUPS = ()
RULE = ("every ordered unit pair of every quantity type with a reference unit x amount pairs x ops add/sub/div; "
        "oracle = result unit, same-unit exactness, exact-rational bounds for mixed units; "
        "non-trivial = different units and both amounts non-zero")


def gen(w, rng, tier):
    ops = []
    per = 2 if tier == "quick" else 12
    for t in w.withref():
        n = t["n"]
        for (i, j) in w.pairs(t, rng):
            if True:
                ams = amounts(w.be, rng, 3)
                for _ in range(per):
                    la, a = rng.choice(ams)
                    lb, b = rng.choice(ams)
                    if rng.chance(1, 10):
                        lb, b = rng.choice(specials(w.be))
                    for op in ("add", "sub", "div"):
                        ops.append((f"{op}:{'same' if i == j else 'diff'}:{la}:{lb}",
                                    f"{op} {t['name']} {i} {a} {j} {b}"))
    return ops


def nontrivial(c):
    return ":diff:" in c.label and "zero" not in c.label
