"""C19 — Every feature combination builds and is self-contained (partial: cargo/rustc modelled)."""
import concurrent.futures
import json
import os
import shutil
import subprocess

import compilecheck as cc
import gen_harness
import pipeline as pl
from fractions import Fraction

from world import Rng, World, amounts, enc_frac

ID = "C19"
LEAN_MODULES = ["QtyModel.Props.C19"]
HARNESS_GROUPS = ()
EXTRA_NEEDS_HARNESS = True     # the corpus comparison runs the full harness
RULE = ("configurations {each of the 14 quantity features alone, none, all} x {std, no std} x {f64, decimal} x {serde on, off} "
        "(thorough: all 128; quick: 16 covering every value of every dimension): cargo check of a consumer crate that names "
        "the quantity, a unit constant and the derivation operator of that feature; plus a fixed operation corpus evaluated "
        "by a harness built with only one feature (and what it pulls in) and by the full harness; non-trivial = each configuration")
TRUSTED_EXTRA = ["modelled: cargo feature resolution (least set closed under [features]) and rustc's cfg evaluation"]
FEATURES = gen_harness.ALL_Q


def gen(w, rng, tier):
    return []


def consumer_source(feature, tables, dump_types, std, serde, dec=False, consumer_no_std=None):
    by_name = {t["name"]: t for t in dump_types}
    mods = {it["name"]: it for it in tables["catalogue"]}
    lines = ["#![allow(unused, non_snake_case)]"]
    # the consumer is `#![no_std]` when the library is built without std — and, as a separate dimension, also
    # while the library's `std` feature IS enabled (cargo unifies features: another crate of the build may ask for it)
    if (not std) if consumer_no_std is None else consumer_no_std:
        lines.insert(0, "#![no_std]")
    lines.append("use quantities::prelude::*;")
    body = ["    let _p = quantities::SIPrefix::KILO;", "    let _one: AmountT = Amnt!(1) * quantities::ONE;",
            # the amount type is the one the configuration asks for
            ("    let _t: quantities::Decimal = quantities::AMNT_ONE;" if dec else "    let _t: f64 = quantities::AMNT_ONE;")]
    feats = FEATURES if feature == "all" else ([] if feature == "none" else [feature])
    used = 0
    for f in feats:
        for name, it in mods.items():
            if it["module"] != f:
                continue
            t = by_name[name]
            path = f"quantities::{f}"
            c0 = t["units"][0]["const"]
            body.append(f"    let q{used}: {path}::{name} = Amnt!(2) * {path}::{c0};")
            body.append(f"    let _n{used} = {path}::{c0}.name();")
            if serde:
                body.append(f"    assert_ser(&q{used});")
            # derivation operator
            args = it["args"]
            if len(args) == 3:
                l, op, r = args[0]["v"], args[1]["v"], args[2]["v"]

                def val(tn, k):
                    if tn == "AmountT":
                        return f"let v{used}_{k}: AmountT = Amnt!(3);"
                    tt = by_name[tn]
                    ref = tt["units"][tt["ref"]]["const"]
                    return f"let v{used}_{k} = Amnt!(3) * quantities::{mods[tn]['module']}::{ref};"
                body.append("    " + val(l, "l"))
                body.append("    " + val(r, "r"))
                body.append(f"    let _d{used}: {path}::{name} = v{used}_l {op} v{used}_r;")
            used += 1
    if serde:
        lines.append("fn assert_ser<T: serde::Serialize>(_t: &T) {}")
    # the consumer also DEFINES quantities with the macro (the generated code resolves its names through the
    # prelude of whatever configuration the library was built in): a basic one, and one without reference unit
    lines += ["#[quantity]", '#[ref_unit(Cref, "c")]', '#[unit(Ckilo, "kc", KILO, 1000)]', '#[unit(Chalf, "hc", 0.5)]',
              "pub struct Cq {}", "#[quantity]", '#[unit(Cn_A, "na")]', '#[unit(Cn_B, "nb")]', "pub struct Cn {}"]
    body += ["    let c: Cq = Amnt!(3) * CKILO;", "    let _cs = c.convert(CREF) + Amnt!(1) * CHALF;", "    let _cn = CKILO.name();",
             "    let _cu = CqUnit::from_symbol(\"kc\");", "    let n: Cn = Amnt!(2) * CN_A;", "    let _nn = n.unit().symbol();"]
    # (no serde assertion on these: the derives the macro emits are gated on the feature `serde` of the crate
    # that CONTAINS the definition, i.e. of this consumer crate, which has none)
    lines.append("pub fn consume() {")
    lines += body
    lines.append("}")
    return "\n".join(lines) + "\n"


def configs(tier, seed):
    names = FEATURES + ["none", "all"]
    out = []
    if tier == "thorough":
        for n in names:
            for std in (True, False):
                for dec in (False, True):
                    for serde in (False, True):
                        out.append((n, std, dec, serde))
    else:
        for i, n in enumerate(names):
            k = (i + seed) % 8
            out.append((n, bool(k & 1), bool(k & 2), bool(k & 4)))
    # a `#![no_std]` consumer while the library is built WITH std (5th component; None = consumer follows the library)
    extra_nostd = [(n, True, bool((i + seed) & 1), False, True) for i, n in enumerate(names)
                   if tier == "thorough" or i % 5 == seed % 5]
    return [c + (None,) for c in out] + extra_nostd


def run_config(root, worker, cfg, tables, dump_types):
    feature, std, dec, serde, cns = cfg
    feats = (FEATURES if feature == "all" else ([] if feature == "none" else [feature]))
    qf = list(feats) + (["std"] if std else []) + (["fpdec"] if dec else []) + (["serde"] if serde else [])
    src = consumer_source(feature, tables, dump_types, std, serde, dec, cns)
    name = f"c19_{feature}_{int(std)}{int(dec)}{int(serde)}{'n' if cns else ''}"
    extra = 'serde = { version = "1" }\n' if serde else ""
    d = cc.make_crate(root, name, src, qf, default_features=False, extra_deps=extra)
    ok, diags, tail = cc.cargo_check(d, f"c19-w{worker}")
    return cfg, ok, diags, tail, src


def corpus_lines(w, rng, tname):
    t = w.by_name[tname]
    lines = []
    n = t["n"]
    for i in range(n):
        for j in range(n):
            la, a = rng.choice(amounts(w.be, rng, 2))
            lb, b = rng.choice(amounts(w.be, rng, 2))
            lines += [f"conv {tname} {i} {j} {a}", f"add {tname} {i} {a} {j} {b}", f"cmp {tname} {i} {a} {j} {b}",
                      f"fmt {tname} {i} {a} nr10 14 3"]
            if t["kind"] == "withref":
                lines += [f"sub {tname} {i} {a} {j} {b}", f"div {tname} {i} {a} {j} {b}"]
        la, a = rng.choice(amounts(w.be, rng, 2))
        lk, k = rng.choice(amounts(w.be, rng, 2))
        lines += [f"smul {tname} {i} {a} {k}", f"new {tname} {i} {a}", f"fmtu {tname} {i} sr00 9 -", f"ser {tname} {i} {a}"]
        if t["kind"] == "withref":
            lines += [f"fit {tname} {a}", f"fscale {tname} {a}"]
    if tname == "Temperature":
        # the predefined conversion table: every ordered pair x a dense grid of one-decimal amounts (most of the
        # products amount x 1.8 / amount x 0.5555... are inexact in binary64) and the usual amount classes
        lines.append("temp rows")
        grid = [enc_frac(w.be, Fraction(k, 10)) for k in range(-400, 1201, 3)] + [a for _, a in amounts(w.be, rng, 6)]
        for i in range(n):
            for j in range(n):
                for a in grid:
                    lines.append(f"temp conv {i} {a} {j}")
    # every sign class of zero and a negative amount under the flags that treat the sign specially
    for i in range(n):
        for a in ("x8000000000000000", "x0000000000000000", "xbff8000000000000"):
            for spec in ("nn00 - -", "nn10 - -", "nn00 - 3", "nr10 12 2", "nn01 9 1", "sc00 11 -"):
                lines.append(f"fmt {tname} {i} {a} {spec}")
    lines.append(f"reg {tname}")
    return lines


def extra(tier, seed):
    cov = dict(configurations=0, configurations_built=0, corpus_lines_compared=0)
    fails, broken = [], []
    tables = json.load(open(os.path.join(pl.WORK, "tables.json"), encoding="utf-8"))
    dump = open(os.path.join(pl.WORK, "dump_f64.txt"), encoding="utf-8").read()
    dump_types, _, _ = gen_harness.parse_dump(dump)
    cfgs = configs(tier, seed)
    workers = 4
    with cc.TempRoot() as root:
        with concurrent.futures.ThreadPoolExecutor(max_workers=workers) as ex:
            futs = [ex.submit(run_config, root, i % workers, c, tables, dump_types) for i, c in enumerate(cfgs)]
            # a worker's jobs share a target dir: serialise them per worker
            results = []
            for f in futs:
                results.append(f.result())
        for cfg, ok, diags, tail, src in results:
            cov["configurations"] += 1
            if ok:
                cov["configurations_built"] += 1
            else:
                what = (f"configuration feature={cfg[0]} std={cfg[1]} decimal={cfg[2]} serde={cfg[3]}"
                        f"{' (no_std consumer)' if cfg[4] else ''} does not build")
                fails.append(dict(config=dict(feature=cfg[0], std=cfg[1], decimal=cfg[2], serde=cfg[3], consumer_no_std=bool(cfg[4])), what=what,
                                  diagnostics=[d.as_dict() for d in diags[:5]] or tail[-800:], consumer=src,
                                  oracle="FAIL:" + what))
        # feature independence of results: a harness built with ONE feature vs the full harness
        rng = Rng(seed * 7919 + 19)
        # `temperature` is the one module with run-time code of its own (the conversion table): always compared
        picks = FEATURES if tier == "thorough" else ["temperature", rng.choice([f for f in FEATURES if f != "temperature"])]
        # a quantity module that itself contains conditional compilation (outside its tests) is compared as well:
        # what it defines may depend on which OTHER features are enabled
        for f in suspicious_modules():
            if f not in picks:
                picks.append(f)
        for feat in picks:
            vdir = os.path.join(root, f"harness_{feat}")
            mods_needed = [feat]
            # the minimal configuration: this one feature (and what it pulls in), WITHOUT the standard library
            gen_harness.write_variant(pl.VERIF, pl.REPO, vdir, [feat], closure_modules(tables, feat), default_features=False)
            env = dict(pl.ENV, CARGO_TARGET_DIR=os.path.join(pl.CACHE, "target-gen-c19-min"), RUSTFLAGS="-Awarnings")
            hf = "serde,g_ser" + (",temp" if feat == "temperature" else "")   # serde on: same as the full harness
            p = subprocess.run(["cargo", "build", "--features", hf, "--message-format=short"], cwd=vdir, env=env,
                               stdout=subprocess.PIPE, stderr=subprocess.STDOUT, text=True, timeout=3600)
            if p.returncode != 0:
                broken.append(pl.Broken(f"corr.C19.min-harness.{feat}", p.stdout[-3000:]))
                continue
            w = World("f64", dump)
            tname = [it["name"] for it in tables["catalogue"] if it["module"] == feat][0]
            lines = corpus_lines(w, rng, tname)
            inp = "\n".join(lines) + "\n"
            a = subprocess.run([os.path.join(pl.CACHE, "target-gen-c19-min/debug/harness")], input=inp, stdout=subprocess.PIPE,
                               text=True, timeout=600).stdout.split("\n")
            b = subprocess.run([pl.harness_bin("f64")], input=inp, stdout=subprocess.PIPE, text=True, timeout=600).stdout.split("\n")
            for l, x, y in zip(lines, a, b):
                cov["corpus_lines_compared"] += 1
                if x != y:
                    what = f"result of `{l}` changes when further features (the other quantities, std) are enabled"
                    fails.append(dict(feature=feat, op=l, minimal=x, full=y, what=what, oracle="FAIL:" + what))
                    break
    cov["evaluations"] = cov["configurations"] + cov["corpus_lines_compared"]
    cov["distinct_nontrivial"] = cov["configurations"]
    cov["samples"] = [dict(config=dict(feature=c[0], std=c[1], decimal=c[2], serde=c[3], consumer_no_std=bool(c[4]))) for c in cfgs[:4]]
    return cov, fails, broken


def suspicious_modules():
    import translate_tables as tt
    from rusttok import tokenize
    out = []
    for f in FEATURES:
        p = os.path.join(pl.REPO, "src", f + ".rs")
        if not os.path.isfile(p):
            continue
        sites = []
        try:
            tt.cfg_sites(tokenize(open(p, encoding="utf-8").read()), f, sites)
        except Exception:  # noqa: BLE001 - a predicate the inventory cannot read is suspicious by itself
            sites = [None]
        if sites:
            out.append(f)
    return out


def closure_modules(tables, feat):
    feats = tables["features"]["features"]
    seen, todo = set(), [feat]
    while todo:
        f = todo.pop()
        if f in seen:
            continue
        seen.add(f)
        todo += [d for d in feats.get(f, []) if d in feats]
    return sorted(seen)
