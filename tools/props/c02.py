"""C02 — Cross-unit comparison is physically correct and order-independent."""
from fractions import Fraction

from world import amounts, specials, enc_frac, amount_value, enc_f64, dec_f64, f64_next, enc_dec, dec_dec

ID = "C02"
LEAN_MODULES = ["QtyModel.Props.C02", "QtyModel.Props.Backends", "QtyModel.Props.TieConv", "QtyModel.Props.TieCmp", "QtyModel.Props.TieKindsRefCmp", "QtyModel.Props.C02Inf", "QtyModel.Props.OracleSoundC02"]
HARNESS_GROUPS = ()
RULE = ("every ordered unit pair of every quantity type with a reference unit x amount pairs built to denote the "
        "same magnitude (x = nearest(y*s_j/s_i)), neighbouring magnitudes (+-1 ulp / +-1 last digit), unrelated "
        "magnitudes, equal amounts, NaN; each line evaluates both operand orders; "
        "non-trivial = different units and non-zero amounts")


def neighbours(be, enc):
    if be == "f64":
        x = dec_f64(enc)
        if x != x or x in (float("inf"), float("-inf")):
            return []
        return [enc_f64(f64_next(x, True)), enc_f64(f64_next(x, False))]
    c, n = dec_dec(enc)
    return [enc_dec(c + 1, n), enc_dec(c - 1, n)]


def gen(w, rng, tier):
    ops = []
    per = 2 if tier == "quick" else 10
    for t in w.withref():
        n = t["n"]
        us = t["units"]
        for (i, j) in w.pairs(t, rng):
            if True:
                ams = amounts(w.be, rng, 3)
                si, sj = us[i]["scale_val"], us[j]["scale_val"]
                for _ in range(per):
                    lb, b = rng.choice(ams)
                    y = amount_value(w.be, b)
                    if y is None or not si:
                        continue
                    # same magnitude in unit i
                    a = enc_frac(w.be, y * sj / si)
                    exact = amount_value(w.be, a) is not None and amount_value(w.be, a) * si == y * sj
                    lab = "equal-exact" if exact else "equal-nearest"
                    ops.append((f"cmp:{'same' if i == j else 'diff'}:{lab}:{lb}", f"cmp {t['name']} {i} {a} {j} {b}"))
                    for nb in neighbours(w.be, a):
                        ops.append((f"cmp:{'same' if i == j else 'diff'}:neighbour:{lb}", f"cmp {t['name']} {i} {nb} {j} {b}"))
                    # a simple magnitude representable in both units: k*s_i*s_j/(s_i) ...
                    k = rng.below(20) + 1
                    a2 = enc_frac(w.be, Fraction(k) * sj)
                    b2 = enc_frac(w.be, Fraction(k) * si)
                    ops.append((f"cmp:{'same' if i == j else 'diff'}:cross-multiple", f"cmp {t['name']} {i} {a2} {j} {b2}"))
                    la, a3 = rng.choice(ams)
                    ops.append((f"cmp:{'same' if i == j else 'diff'}:unrelated:{la}", f"cmp {t['name']} {i} {a3} {j} {b}"))
                if rng.chance(1, 3):
                    ls, sp = rng.choice(specials(w.be))
                    lb, b = rng.choice(ams)
                    ops.append((f"cmp:{'same' if i == j else 'diff'}:special:{ls}", f"cmp {t['name']} {i} {sp} {j} {b}"))
    return ops


def nontrivial(c):
    return ":diff:" in c.label and "zero" not in c.label
