"""C15 — Text output is faithful and parseable."""
from fractions import Fraction

from world import amounts, enc_f64, f64_from_bits, f64_bits, f64_next, frac_to_f64

ID = "C15"
LEAN_MODULES = ["QtyModel.Props.C15", "QtyModel.Props.C15Dec", "QtyModel.Props.C15F64", "QtyModel.Props.C15RoundTrip", "QtyModel.Props.TieFmt"]
HARNESS_GROUPS = ('g_rate',)
RATE_TYPES = ["Length", "Duration", "Mass", "DataVolume", "Temperature", "AmountT", "S:Su", "S:Sn", "S:Sa"]
FILLS = ["n", "s", "z", "u", "e", "w"]
ALIGNS = ["n", "l", "c", "r"]
RULE = ("every unit of every quantity type x amount classes (every sign / magnitude class) x a grid of format "
        "specifications (fill incl. non-ASCII, alignment, '+', '0', width 0..40, precision none/0..20); round trip "
        "(display, parse the amount back, resolve the symbol) for every unit; unit display under string formatting; "
        "rate display; non-trivial = a width or precision is given, or the symbol is non-ASCII")
TRUSTED_EXTRA = ["modelled: core::fmt (the amount text of f64 is taken from std's own Display in the harness and checked "
                 "for exact digit count and correct rounding; padding semantics = Formatter::pad_integral / pad)"]


def rand_spec(rng):
    a = rng.choice(ALIGNS)
    f = rng.choice(FILLS) if a != "n" else "n"
    plus, zero = rng.below(2), (1 if rng.chance(1, 4) else 0)
    w = "-" if rng.chance(1, 5) else str(rng.below(41))
    p = "-" if rng.chance(1, 2) else str(rng.below(21))
    return f"{f}{a}{plus}{zero}", w, p


def finite(be, lab):
    return not any(x in lab for x in ("inf", "nan"))


def gen(w, rng, tier):
    ops = []
    per = 3 if tier == "quick" else 25
    for t in w.types:
        for i, u in enumerate(t["units"]):
            ams = [a for a in amounts(w.be, rng, 3) if finite(w.be, a[0])]
            if w.be == "f64":
                ams = [a for a in ams if a[0] not in ("negzero",)]   # -0.0: see DESIGN (sign of negative zero)
            for lab, a in [rng.choice(ams) for _ in range(2)]:
                if " " not in u["symbol"]:      # the round trip splits the text at its last space
                    ops.append((f"fmtrt:{lab}", f"fmtrt {t['name']} {i} {a}"))
            for _ in range(per):
                lab, a = rng.choice(ams)
                flags, wd, p = rand_spec(rng)
                nonascii = any(ord(c) > 127 for c in u["symbol"])
                ops.append((f"fmt:{'nonascii' if nonascii else 'ascii'}:{lab}:w{wd != '-'}:p{p != '-'}",
                            f"fmt {t['name']} {i} {a} {flags} {wd} {p}"))
            # a unit displays as its symbol under the ordinary string formatting rules: random
            # specifications, and for EVERY unit one width that pads (each alignment in turn) and one
            # precision that truncates its symbol
            for _ in range(per):
                flags, wd, p = rand_spec(rng)
                ops.append(("fmtu", f"fmtu {t['name']} {i} {flags} {wd} {p}"))
            nsym = len(u["symbol"])
            al = ALIGNS[(i + len(ops)) % len(ALIGNS)]
            fl = rng.choice(FILLS) if al != "n" else "n"
            ops.append(("fmtu:pad", f"fmtu {t['name']} {i} {fl}{al}00 {nsym + 1 + rng.below(5)} -"))
            ops.append(("fmtu:trunc", f"fmtu {t['name']} {i} nn00 - {max(0, nsym - 1)}"))
            ops.append(("fmtu:pad+trunc", f"fmtu {t['name']} {i} {rng.choice(FILLS)}{rng.choice(ALIGNS[1:])}00 {nsym + 2} {max(0, nsym - 1)}"))
    if w.be == "f64":
        # the model of the amount type's own Display (shortest round-trip digits, exact expansion rounded
        # half-even for a precision) against std, on the classes where digit generation is delicate
        for cls, x in ftxt_values(rng, 4000 if tier == "quick" else 80000):
            ops.append((f"ftxt:{cls}", f"ftxt {enc_f64(x)} {rng.choice(FTXT_PRECS)}"))
    types = [x for x in RATE_TYPES if x in w.by_name]
    for tq in types:
        for pq in types:
            tt, tp = w.by_name[tq], w.by_name[pq]
            for _ in range(2 if tier == "quick" else 10):
                ams = [a for a in amounts(w.be, rng, 2) if finite(w.be, a[0]) and a[0] != "negzero"]
                ta = rng.choice(ams)[1]
                pm = rng.choice(ams)[1] if rng.chance(1, 2) else [a for l, a in ams if l in ("one", "one-digits")][rng.below(1)]
                ops.append(("ratefmt", f"rate {tq} {pq} {ta} {rng.below(tt['n'])} {pm} {rng.below(tp['n'])} fmt"))
    return ops


FTXT_PRECS = ["-", "-", "-", "0", "1", "2", "3", "6", "15", "17", "18", "19", "20", "25"]


def ftxt_values(rng, n):
    """binary64 values for the amount-text model: (class, double)"""
    out = []
    for _ in range(n):
        k = rng.below(13)
        if k == 12:     # exact ties BETWEEN two shortest candidates: 16 significant digits, ulp 1/8, fraction .25 / .75
            out.append(("short-tie", float((1 << 49) + rng.below(1 << 49)) + [0.25, 0.75][rng.below(2)]))
        elif k == 0:    # any finite bit pattern
            b = rng.below(1 << 64)
            if (b >> 52) & 0x7ff == 0x7ff:
                b &= ~(1 << 62)
            out.append(("bits", f64_from_bits(b)))
        elif k == 1:    # powers of two and their neighbours (the lower gap is half as wide)
            x = 2.0 ** (rng.below(2098) - 1074)
            out.append(("pow2", [x, f64_next(x), f64_next(x, False)][rng.below(3)]))
        elif k == 2:    # d * 10^e and neighbours
            x = frac_to_f64(Fraction(rng.below(9) + 1) * Fraction(10) ** (rng.below(633) - 324))
            out.append(("pow10", [x, f64_next(x), f64_next(x, False)][rng.below(3)]))
        elif k == 3:    # short decimals
            out.append(("short-dec", frac_to_f64(Fraction(rng.below(10 ** (1 + rng.below(9))), 10 ** rng.below(9)))))
        elif k == 4:    # exact ties of a fixed precision: odd / 2^j
            j = 1 + rng.below(12)
            out.append(("tie", (2 * rng.below(1 << 20) + 1) / float(1 << j)))
        elif k == 5:    # decimal ...5 half-way cases (not exact in binary: must round by the exact binary value)
            j = rng.below(8)
            out.append(("dec-half", frac_to_f64(Fraction(10 * rng.below(10 ** 6) + 5, 10 ** (j + 1)))))
        elif k == 6:    # carries: 9.99...
            j = 1 + rng.below(17)
            out.append(("carry", frac_to_f64(Fraction(10 ** j - 1, 10 ** (j - 1 - rng.below(j))))))
        elif k == 7:    # integers up to 2^70
            out.append(("int", float(rng.below(1 << (1 + rng.below(70))))))
        elif k == 8:    # 1e21 .. 1e23 (no exponent notation in Display)
            out.append(("e21-e23", frac_to_f64(Fraction(rng.below(9000) + 1000, 1000) * Fraction(10) ** (21 + rng.below(3)))))
        elif k == 9:    # subnormals
            out.append(("subnormal", f64_from_bits(rng.below(1 << 52))))
        elif k == 10:   # moderate range, full mantissa
            out.append(("moderate", frac_to_f64(Fraction(rng.below(1 << 53) + 1, 1 << rng.below(80)))))
        else:
            out.append(("special", [0.0, -0.0, float("inf"), float("-inf"), float("nan"), 5e-324, 1.7976931348623157e308,
                                    2.2250738585072014e-308, 0.1, 1 / 3, 1e23, 9007199254740992.0][rng.below(12)]))
    return [(c, -x if (x == x and rng.chance(1, 4)) else x) for c, x in out]


def nontrivial(c):
    return "wTrue" in c.label or "pTrue" in c.label or "nonascii" in c.label or c.label.startswith("fmtu") or c.label.startswith("ftxt") or c.label == "ratefmt" or c.label.startswith("fmtrt")
