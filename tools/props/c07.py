"""C07 — Catalogue units carry their defined scales, prefixes and symbols."""
ID = "C07"
LEAN_MODULES = ["QtyModel.Props.C07", "QtyModel.Props.TieCodegen"]
HARNESS_GROUPS = ()
RULE = ("registry dump of every predefined quantity (14 catalogue types in both back-ends, 4 astronomical types in f64): "
        "what the COMPILED crate reports for name/symbol/si_prefix/scale of every iterated unit, compared (a) with the "
        "model of the macro applied to the regenerated declarations and (b) with the independent definition table; "
        "non-trivial = each dumped quantity")


def gen(w, rng, tier):
    return [("spec", f"spec {t['name']}") for t in w.types if not t["name"].startswith("S:") and t["name"] != "AmountT"]
