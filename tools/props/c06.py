"""C06 — Dimensional type safety of quantity arithmetic (partial: rustc modelled)."""
import json
import os

import compilecheck as cc
import pipeline as pl

ID = "C06"
LEAN_MODULES = ["QtyModel.Props.C06", "QtyModel.Props.C06General"]
HARNESS_GROUPS = ()
# kinds of difference in the macro-level correspondence (tools/macrofront.py) that are failing inputs here
MACRO_PARTS = ("impls", "items")
RULE = ("all ordered pairs of the 14 catalogue quantity types and the dimensionless amount x operators + - * / == < "
        "(1350 programs) in both back-ends, and the astronomical crate's types (150 programs, f64): rustc's verdict per "
        "program (accepted with the ascribed result type / rejected at that line) compared with the specification relation "
        "and with the model's impl table; non-trivial = each program")
TRUSTED_EXTRA = ["modelled: rustc's trait selection (operator application = lookup in the generated impl table)"]


def gen(w, rng, tier):
    return []


def type_path(name, group, tables):
    if name == "AmountT":
        return "quantities::AmountT"
    if name == "bool":
        return "bool"
    if name.startswith("prim:"):
        return name[5:]
    if group == "astro":
        return f"astronomical_quantities::{name}"
    for it in tables["catalogue"]:
        if it["name"] == name:
            return f"quantities::{it['module']}::{name}"
    raise KeyError(name)


def build_program(rows, group, tables):
    """rows: (op, L, R, model, spec).  One function per row, one row per line."""
    lines = ["#![allow(unused, non_snake_case, clippy::all)]"]
    index = {}
    for k, (op, l, r, model, spec) in enumerate(rows):
        lp, rp = type_path(l, group, tables), type_path(r, group, tables)
        if spec != "-":
            body = f"pub fn f{k}(a: {lp}, b: {rp}) -> {type_path(spec, group, tables)} {{ a {op} b }}"
        else:
            body = f"pub fn f{k}(a: {lp}, b: {rp}) {{ let _ = a {op} b; }}"
        lines.append(body)
        index[len(lines)] = k
    return "\n".join(lines) + "\n", index


def extra(tier, seed):
    cov = dict(programs=0, rejected_as_predicted=0, accepted_as_predicted=0)
    fails, broken = [], []
    tables = json.load(open(os.path.join(pl.WORK, "tables.json"), encoding="utf-8"))
    with cc.TempRoot() as root:
        for be in ("f64", "dec"):
            for group in ("catalogue", "astro"):
                if group == "astro" and be == "dec":
                    continue
                rc, out = pl.sh([pl.DRIVER, be, "typing", group])
                rows = [tuple(l.split(" ")) for l in out.splitlines() if l.strip()]
                mism = [r for r in rows if r[3] != r[4]]
                if mism:
                    broken.append(pl.Broken("thm.C06.typechecks_eq_spec", f"model impl table and specification relation differ: {mism[:5]}"))
                # a bare number of ANOTHER primitive type combined with a quantity is never meaningful (the
                # specification knows the amount type only): integer and other float types, both operand orders
                prims = ["i32", "i64", "u8", "usize", "f32"] + (["f64"] if be == "dec" else [])
                qnames = sorted({r[1] for r in rows if r[1] not in ("AmountT", "bool")})
                for q in qnames:
                    for pr in prims:
                        for op in ("*", "/", "+", "-"):
                            rows.append((op, "prim:" + pr, q, "-", "-"))
                            rows.append((op, q, "prim:" + pr, "-", "-"))
                src, index = build_program(rows, group, tables)
                feats = cc.ALL_FEATURES + (["fpdec"] if be == "dec" else [])
                d = cc.make_crate(root, f"c06_{group}_{be}", src, feats, astro=(group == "astro"))
                ok, diags, tail = cc.cargo_check(d, f"c06-{be}")
                err_lines = {}
                for dg in diags:
                    if dg.file and dg.file.endswith("src/lib.rs"):
                        err_lines.setdefault(dg.line, dg)
                    else:
                        broken.append(pl.Broken("corr.C06.build", f"error outside the generated program: {dg.as_dict()}"))
                if not diags and not ok:
                    broken.append(pl.Broken("corr.C06.build", tail))
                for line_no, k in index.items():
                    op, l, r, model, spec = rows[k]
                    cov["programs"] += 1
                    rejected = line_no in err_lines
                    if spec == "-" and rejected:
                        cov["rejected_as_predicted"] += 1
                    elif spec != "-" and not rejected:
                        cov["accepted_as_predicted"] += 1
                    else:
                        what = (f"`{l} {op} {r}` type-checks although the combination is not dimensionally meaningful"
                                if spec == "-" else
                                f"`{l} {op} {r}` does not type-check with result type {spec}: {err_lines[line_no].message[:120]}")
                        fails.append(dict(backend=be, group=group, program=src.splitlines()[line_no - 1], what=what,
                                          rustc=(err_lines[line_no].as_dict() if rejected else "accepted"),
                                          model=model, spec=spec, oracle="FAIL:" + what))
        # ---- randomly generated derivation graphs (definitions expanded by the real macro)
        import defgen
        from world import Rng
        rng = Rng(seed * 6700417 + 6)
        for rnd in range(1 if tier == "quick" else 6):
            g = defgen.Gen(rng)
            kinds = ["ref", "ref", "ref", "noref", "single", "derived", "ref", "derived", "derived"]
            defs = [g.wellformed(k) for k in kinds[: (7 if tier == "quick" else 9)]]
            items_path = os.path.join(root, f"graph{rnd}.txt")
            with open(items_path, "w", encoding="utf-8") as f:
                f.write("\n".join(d.item_text() for d in defs) + "\n")
            for be in (("f64",) if tier == "quick" else ("f64", "dec")):
                rc, out = pl.sh([pl.DRIVER, be, "typingf", items_path])
                rows = [tuple(l.split(" ")) for l in out.splitlines() if l.strip()]
                mism = [r for r in rows if r[3] != r[4]]
                if mism:
                    broken.append(pl.Broken("thm.C06.typechecks_eq_spec", f"random graph: model and specification differ: {mism[:5]}"))
                lines = ["#![allow(unused, non_snake_case, non_camel_case_types, clippy::all)]",
                         "pub mod defs {", "    use quantities::prelude::*;"]
                for d in defs:
                    lines += ["    " + l for l in d.rust_lines()[0]]
                lines.append("}")

                def tp(n):
                    return "quantities::AmountT" if n == "AmountT" else ("bool" if n == "bool" else f"defs::{n}")
                index = {}
                for k, (op, l, r, model, spec) in enumerate(rows):
                    if spec != "-":
                        lines.append(f"pub fn f{k}(a: {tp(l)}, b: {tp(r)}) -> {tp(spec)} {{ a {op} b }}")
                    else:
                        lines.append(f"pub fn f{k}(a: {tp(l)}, b: {tp(r)}) {{ let _ = a {op} b; }}")
                    index[len(lines)] = k
                src = "\n".join(lines) + "\n"
                d = cc.make_crate(root, f"c06_graph{rnd}_{be}", src, ["fpdec"] if be == "dec" else [])
                ok, diags, tail = cc.cargo_check(d, f"c06-{be}")
                err_lines = {dg.line: dg for dg in diags if dg.file and dg.file.endswith("src/lib.rs")}
                for line_no, k in index.items():
                    op, l, r, model, spec = rows[k]
                    cov["programs"] += 1
                    rejected = line_no in err_lines
                    if (spec == "-") == rejected:
                        cov["rejected_as_predicted" if rejected else "accepted_as_predicted"] += 1
                    else:
                        what = (f"generated types: `{l} {op} {r}` type-checks although not dimensionally meaningful" if spec == "-"
                                else f"generated types: `{l} {op} {r}` does not type-check with result {spec}")
                        fails.append(dict(backend=be, program=lines[line_no - 1], what=what, spec=spec, model=model,
                                          definitions="\n".join(x for dd in defs for x in dd.rust_lines()[0])[:4000],
                                          oracle="FAIL:" + what))
                stray = [dg for ln, dg in err_lines.items() if ln not in index]
                if stray:
                    broken.append(pl.Broken("corr.C06.graph", f"errors outside the operator programs: {[x.as_dict() for x in stray[:3]]}"))
    cov["evaluations"] = cov["programs"]
    cov["distinct_nontrivial"] = cov["programs"]
    cov["samples"] = ["pub fn f(a: Length, b: Length) -> Area { a * b }", "pub fn f(a: Mass, b: Length) { let _ = a + b; }"]
    return cov, fails, broken
