"""C18 — Operations are total on in-range inputs."""
from fractions import Fraction

from world import amounts, specials, amount_value, enc_frac, enc_dec

ID = "C18"
LEAN_MODULES = ["QtyModel.Props.C18", "QtyModel.Props.Backends", "QtyModel.Props.C18Generated"]
HARNESS_GROUPS = ('g_derived', 'g_rate')
RATE_TYPES = ["Length", "Duration", "Mass", "DataVolume", "AmountT", "S:Sa"]
RULE = ("operations of C01-C05, C08, C13-C15 on every quantity type with a reference unit x special and boundary amounts "
        "(f64: zero, -0, subnormal, max, inf, NaN; decimal: i128 boundary coefficients, 18-digit values) plus, for decimal, "
        "amounts drawn inside the stated magnitude domain (decided from the property's literal list with exact rationals); "
        "oracle: no panic in f64; no panic inside the domain in decimal; panic kind equal to the model's otherwise; "
        "non-trivial = special amounts or in-domain decimal amounts")

LO, HI = Fraction(1, 10 ** 15), Fraction(10 ** 17)


def ok_mag(x, zero_ok=True):
    x = abs(x)
    return (zero_ok and x == 0) or (LO <= x <= HI)


def smin(t):
    return min(u["scale_val"] for u in t["units"])


def in_domain(w, line):
    """the property's literal domain for decimal, for the ops where it is spelled out"""
    ws = line.split(" ")
    op = ws[0]
    try:
        if op == "conv":
            t = w.by_name[ws[1]]
            i, j = int(ws[2]), int(ws[3])
            a = amount_value(w.be, ws[4])
            si, sj = t["units"][i]["scale_val"], t["units"][j]["scale_val"]
            m = a * si
            return all(ok_mag(x) for x in (a, m, m / smin(t), m / sj)) and ok_mag(si / sj, False)
        if op in ("fmt", "fmtu", "fmtnest") or (op == "rate" and ws[7] == "fmt"):
            return True      # formatting has no magnitude precondition: it must never panic
        if op in ("add", "sub", "div", "cmp"):
            t = w.by_name[ws[1]]
            i, j = int(ws[2]), int(ws[4])
            a, b = amount_value(w.be, ws[3]), amount_value(w.be, ws[5])
            si, sj = t["units"][i]["scale_val"], t["units"][j]["scale_val"]
            m1, m2 = a * si, b * sj
            mags = [a, b, m1, m2, m1 / smin(t), m2 / smin(t), m2 / si, m1 / sj]
            if op == "add":
                mags += [m1 + m2, (m1 + m2) / smin(t)]
            if op == "sub":
                mags += [m1 - m2, (m1 - m2) / smin(t)]
            if op == "div":
                if m2 == 0:
                    return False
                mags += [m1 / m2]
                if not ok_mag(m2 / si, False):
                    return False
            return all(ok_mag(x) for x in mags) and ok_mag(sj / si, False) and ok_mag(si / sj, False)
        if op in ("dmul", "ddiv"):
            tl, tr, to = w.by_name[ws[1]], w.by_name[ws[2]], w.by_name[ws[3]]
            i, j = int(ws[4]), int(ws[6])
            a, b = amount_value(w.be, ws[5]), amount_value(w.be, ws[7])
            sl, sr = tl["units"][i]["scale_val"], tr["units"][j]["scale_val"]
            m1, m2 = a * sl, b * sr
            if op == "ddiv" and (b == 0):
                return False
            res = m1 * m2 if op == "dmul" else m1 / m2
            amt = a * b if op == "dmul" else a / b
            sc = sl * sr if op == "dmul" else sl / sr
            mags = [a, b, m1, m2, m1 / smin(tl), m2 / smin(tr), res, res / smin(to), amt]
            return all(ok_mag(x) for x in mags) and ok_mag(sc, False)
        if op == "rate":
            tq, pq = w.by_name[ws[1]], w.by_name[ws[2]]
            if tq["kind"] != "withref" or pq["kind"] != "withref":
                return False
            ta, tu, pm, pu = amount_value(w.be, ws[3]), int(ws[4]), amount_value(w.be, ws[5]), int(ws[6])
            kind, qi, qa = ws[7], int(ws[8]), amount_value(w.be, ws[9])
            s_tu, s_pu = tq["units"][tu]["scale_val"], pq["units"][pu]["scale_val"]
            if ta == 0 or pm == 0:
                return False          # every line also evaluates the inverse operation: both are divisors
            if kind == "mulq":        # rate * q, q in units of PQ
                s_q = pq["units"][qi]["scale_val"]
                if pm == 0:
                    return False
                n_per = qa * s_q / (pm * s_pu)          # number of per-values in q
                res = ta * n_per                        # in the term unit
                mags = [ta, pm, qa, ta * s_tu, pm * s_pu, qa * s_q, ta * s_tu / smin(tq), pm * s_pu / smin(pq),
                        qa * s_q / smin(pq), qa * s_q / s_pu, n_per, res, res * s_tu, res * s_tu / smin(tq)]
                return all(ok_mag(x) for x in mags) and ok_mag(s_q / s_pu, False) and ok_mag(s_pu / s_q, False)
            if kind == "divq":        # q / rate, q in units of TQ
                s_q = tq["units"][qi]["scale_val"]
                if ta == 0:
                    return False
                n_term = qa * s_q / (ta * s_tu)
                res = pm * n_term
                mags = [ta, pm, qa, ta * s_tu, pm * s_pu, qa * s_q, ta * s_tu / smin(tq), pm * s_pu / smin(pq),
                        qa * s_q / smin(tq), qa * s_q / s_tu, n_term, res, res * s_pu, res * s_pu / smin(pq)]
                return all(ok_mag(x) for x in mags) and ok_mag(s_q / s_tu, False) and ok_mag(s_tu / s_q, False)
    except (KeyError, TypeError, ZeroDivisionError, ValueError, IndexError):
        return False
    return False


def domain_amount(w, rng, t, i):
    """an amount whose magnitude is well inside the domain in every unit of the type"""
    s = t["units"][i]["scale_val"]
    lo = max(LO * max(u["scale_val"] for u in t["units"]), LO) / s * 1000
    hi = min(HI * smin(t), HI) / s / 1000
    if hi <= lo:
        return None
    e = rng.below(30) - 10
    if rng.chance(1, 3):
        # dense: many significant digits and a few fractional digits (large decimal coefficients)
        x = Fraction(rng.below(10 ** 21) + 10 ** 20, 10 ** 20) * Fraction(10) ** (rng.below(18)) + Fraction(rng.below(10 ** 5), 10 ** 5)
    else:
        x = Fraction(rng.below(9999) + 1, 1000) * Fraction(10) ** e
    x = min(max(x, lo), hi)
    if rng.below(2):
        x = -x
    return enc_frac(w.be, x)


def gen(w, rng, tier):
    ops = []
    per = 2 if tier == "quick" else 12

    def add(lab, line):
        dom = "in" if (w.be == "dec" and in_domain(w, line)) else "na"
        ops.append((f"{lab}:dom-{dom}", line))

    for t in w.withref():
        n = t["n"]
        pairs = w.pairs(t, rng)
        if tier == "quick" and len(pairs) > 30:
            pairs = [rng.choice(pairs) for _ in range(30)]
        for (i, j) in pairs:
            sp = specials(w.be) + amounts(w.be, rng, 1)
            for _ in range(per):
                la, a = rng.choice(sp)
                lb, b = rng.choice(sp)
                if w.be == "dec" and rng.chance(2, 3):
                    da, db = domain_amount(w, rng, t, i), domain_amount(w, rng, t, j)
                    if da and db:
                        la, a, lb, b = "domain", da, "domain", db
                add(f"conv:{la}", f"conv {t['name']} {i} {j} {a}")
                for op in ("cmp", "add", "sub", "div"):
                    add(f"{op}:{la}:{lb}", f"{op} {t['name']} {i} {a} {j} {b}")
                add(f"smul:{la}:{lb}", f"smul {t['name']} {i} {a} {b}")
        for la, a in specials(w.be):
            add(f"fit:{la}", f"fit {t['name']} {a}")
            add(f"fmt:{la}", f"fmt {t['name']} {rng.below(n)} {a} nr10 12 3")
        # formatting of quantities and of their units never panics: every unit x special amounts x
        # specifications with and without width / precision (precision 0, 18, 19, 20 for the digit buffers;
        # a precision shorter than the symbol for the unit alone, which cuts inside a multi-byte symbol)
        sp = specials(w.be) + amounts(w.be, rng, 1)
        for i in range(n):
            nsym = len(t["units"][i]["symbol"])
            for spec in ("nn00 - -", "nn10 - 0", "zr01 25 18", "wc00 9 20", "ul10 3 19"):
                la, a = rng.choice(sp)
                add(f"fmt:{la}", f"fmt {t['name']} {i} {a} {spec}")
            for prec in sorted({0, 1, max(0, nsym - 1), nsym, nsym + 1}):
                add("fmtu", f"fmtu {t['name']} {i} wr00 {rng.below(12)} {prec}")
            add("fmtu", f"fmtu {t['name']} {i} nn00 - -")
            # very long amount texts (a fixed-size buffer would not hold them) and re-entrant formatting
            la, a = rng.choice(sp)
            add(f"fmt:long:{la}", f"fmt {t['name']} {i} {a} nn00 - {[40, 120, 330, 600, 1100][rng.below(5)]}")
            la, a = rng.choice(sp)
            add(f"fmtnest:{la}", f"fmtnest {t['name']} {i} {a}")
    for (op, l, r, o) in w.derived():
        tl, tr = w.by_name[l], w.by_name[r]
        pairs = [(i, j) for i in range(tl["n"]) for j in range(tr["n"])]
        if tier == "quick" and len(pairs) > 12:
            pairs = [rng.choice(pairs) for _ in range(12)]
        for (i, j) in pairs:
            sp = specials(w.be)
            la, a = rng.choice(sp)
            lb, b = rng.choice(sp + amounts(w.be, rng, 1))
            if w.be == "dec" and rng.chance(2, 3):
                da, db = domain_amount(w, rng, tl, i), domain_amount(w, rng, tr, j)
                if da and db:
                    la, a, lb, b = "domain", da, "domain", db
            add(f"d{op}:{la}:{lb}", f"d{op} {l} {r} {o} {i} {a} {j} {b}")
    if w.be == "dec":
        # stress inside the domain: for every derived operator the unit pairs with the most extreme
        # scale product / ratio, operand amounts with all 18 fractional digits in use (what any
        # non-terminating division leaves behind) at every decade the domain admits
        for (op, l, r, o) in w.derived():
            tl, tr = w.by_name[l], w.by_name[r]
            sc = []
            for i in range(tl["n"]):
                for j in range(tr["n"]):
                    sl, sr = tl["units"][i]["scale_val"], tr["units"][j]["scale_val"]
                    v = sl * sr if op == "mul" else sl / sr
                    if ok_mag(v, False):
                        sc.append((v, i, j))
            sc.sort()
            picks = sc[:2] + sc[-3:] if len(sc) > 5 else list(sc)
            # a re-association of the operator body creates intermediates that are products / quotients of
            # two of (dividend amount, divisor amount, scale factor): also take the unit pairs for which such
            # an intermediate can get largest or smallest while every stated magnitude stays inside the domain
            if len(sc) > 5:
                sml, smr = float(smin(tl)), float(smin(tr))

                def bounds(t, k, sm):
                    su = float(t["units"][k]["scale_val"])
                    return max(1e-15, 1e-15 * float(max(u["scale_val"] for u in t["units"])) / su), min(1e17, 1e17 * sm / su)
                scored = []
                for (v, i, j) in sc:
                    (alo, ahi), (blo, bhi) = bounds(tl, i, sml), bounds(tr, j, smr)
                    f = float(v)
                    scored.append(((ahi * f, bhi * f, f / blo, alo * f, blo * f, f / bhi), i, j, v))
                for k in range(6):
                    best = sorted(scored, key=lambda x, k=k: x[0][k])
                    for x in (best[-1], best[-2], best[0]):
                        if (x[3], x[1], x[2]) not in picks:
                            picks.append((x[3], x[1], x[2]))
            for (_, i, j) in picks:
                def dense(k):
                    """an amount of decade k with all 18 fractional digits in use: coefficient of 19 + k digits"""
                    nd = 19 + k
                    if nd < 1:
                        return None
                    c = rng.below(9 * 10 ** (nd - 1)) + 10 ** (nd - 1)
                    if c % 10 == 0:
                        c += 1 + rng.below(9)
                    return enc_dec(c, 18)

                def cand(ka, kb, dense_b):
                    ea = dense(ka)
                    if dense_b:
                        eb = dense(kb)
                    else:
                        eb = enc_frac(w.be, Fraction(rng.below(9) + 1) * Fraction(10) ** kb)
                    if ea is None or eb is None:
                        return None
                    line = f"d{op} {l} {r} {o} {i} {ea} {j} {eb}"
                    return line if in_domain(w, line) else None
                ks = list(range(-14, 18))
                # the four corners of the admissible (decade of a, decade of b) region, then random interior points
                orders = [sorted(((ka, kb) for ka in ks for kb in ks), key=lambda p, sa=sa, sb=sb: (sa * p[0], sb * p[1]))
                          for sa in (-1, 1) for sb in (-1, 1)]
                orders += [sorted(((ka, kb) for ka in ks for kb in ks), key=lambda p, sa=sa, sb=sb: (sb * p[1], sa * p[0]))
                           for sa in (-1, 1) for sb in (-1, 1)]
                for od in (orders if tier != "quick" else orders[:4]):
                    for (ka, kb) in od:
                        line = cand(ka, kb, rng.chance(1, 2))
                        if line:
                            ops.append((f"d{op}:stress-corner:dom-in", line))
                            break
                found = 0
                for _ in range(40 if tier == "quick" else 200):
                    line = cand(rng.below(30) - 12, rng.below(30) - 12, rng.chance(1, 2))
                    if line:
                        ops.append((f"d{op}:stress:dom-in", line))
                        found += 1
                        if found >= (2 if tier == "quick" else 12):
                            break
    types = [x for x in RATE_TYPES if x in w.by_name]
    for tq in types:
        for pq in types:
            tt, tp = w.by_name[tq], w.by_name[pq]
            sp = specials(w.be) + amounts(w.be, rng, 1)
            for _ in range(per * 3):
                ta, pm, qa = rng.choice(sp)[1], rng.choice(sp)[1], rng.choice(sp)[1]
                tu, pu = rng.below(tt['n']), rng.below(tp['n'])
                qi_p, qi_t = rng.below(tp['n']), rng.below(tt['n'])
                qa2 = qa
                if w.be == "dec" and tt["kind"] == "withref" and tp["kind"] == "withref" and rng.chance(3, 4):
                    d1, d2, d3, d4 = (domain_amount(w, rng, tt, tu), domain_amount(w, rng, tp, pu),
                                      domain_amount(w, rng, tp, qi_p), domain_amount(w, rng, tt, qi_t))
                    if d1 and d2 and d3 and d4:
                        ta, pm, qa, qa2 = d1, d2, d3, d4
                head = f"rate {tq} {pq} {ta} {tu} {pm} {pu}"
                add("rate:mulq", f"{head} mulq {qi_p} {qa}")
                add("rate:divq", f"{head} divq {qi_t} {qa2}")
                add("rate:fmt", f"{head} fmt")
    return ops


def judge(c):
    """C18 verdict from the implementation's and the model's output"""
    panics = "panic:" in c.impl
    if not panics:
        return "ok"      # totality only: a wrong value is the business of the other properties
    if "other:" in c.impl:
        return "FAIL:undocumented panic " + c.impl[:80]
    if c.be == "f64":
        return "FAIL:panic in the binary floating-point configuration: " + c.impl[:60]
    if c.label.endswith("dom-in"):
        return "FAIL:panic inside the stated decimal magnitude domain: " + c.impl[:60]
    return "ok"      # decimal, outside the stated domain: overflow / division by zero are allowed


def panic_kinds(s):
    import re
    return sorted(set(re.findall(r"panic:[a-z-]+", s)))


def disagrees(c):
    """for totality only the panic behaviour has to correspond"""
    if c.be == "f64" or c.label.endswith("dom-in"):
        return panic_kinds(c.impl) != panic_kinds(c.model)
    return False     # decimal outside the stated domain: the property allows any panic behaviour


def nontrivial(c):
    return True
