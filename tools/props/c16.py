"""C16 — SI prefix table is a consistent bijection."""
ID = "C16"
LEAN_MODULES = ["QtyModel.Props.C16"]
HARNESS_GROUPS = ()
BACKENDS = ("f64",)
RULE = ("exhaustive on the implementation: the whole prefix table in iteration order, all 256 values of i8 for from_exp, "
        "all strings of length <= 2 over the abbreviation alphabet (plus random longer strings) for from_abbr; "
        "oracle = the independently typed SI brochure table; non-trivial = distinct op lines")


def hexs(s):
    return "h" + s.encode("utf-8").hex()


def gen(w, rng, tier):
    ops = [("iter", "si iter")]
    for n in range(-128, 128):
        ops.append(("exp", f"si exp {n}"))
    alpha = sorted(set("qryzafpnµmcdhkMGTPEZYRQ" + "uKDAx "))
    ops.append(("abbr:len0", f"si abbr {hexs('')}"))
    for a in alpha:
        ops.append(("abbr:len1", f"si abbr {hexs(a)}"))
        for b in alpha:
            ops.append(("abbr:len2", f"si abbr {hexs(a + b)}"))
    for _ in range(200 if tier == "quick" else 5000):
        n = 3 + rng.below(4)
        ops.append(("abbr:random", f"si abbr {hexs(''.join(rng.choice(alpha) for _ in range(n)))}"))
    # the Greek mu look-alike and other Unicode near misses
    for s in ("μ", "µ ", " µ", "Μ", "da ", "Da", "DA", "k​"):
        ops.append(("abbr:near-miss", f"si abbr {hexs(s)}"))
    return ops
