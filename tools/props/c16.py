"""C16 — SI prefix table is a consistent bijection."""
ID = "C16"
LEAN_MODULES = ["QtyModel.Props.C16"]
HARNESS_GROUPS = ()
BACKENDS = ("f64",)
RULE = ("exhaustive on the implementation: the whole prefix table in iteration order, all 256 values of i8 for from_exp, "
        "all strings of length <= 2 over the abbreviation alphabet (plus random longer strings) for from_abbr; "
        "oracle = the independently typed SI brochure table; non-trivial = distinct op lines")


def hexs(s):
    return "h" + s.encode("utf-8").hex()


def gen(w, rng, tier):
    ops = [("iter", "si iter")]
    for n in range(-128, 128):
        ops.append(("exp", f"si exp {n}"))
    alpha = sorted(set("qryzafpnµmcdhkMGTPEZYRQ" + "uKDAx "))
    ops.append(("abbr:len0", f"si abbr {hexs('')}"))
    for a in alpha:
        ops.append(("abbr:len1", f"si abbr {hexs(a)}"))
        for b in alpha:
            ops.append(("abbr:len2", f"si abbr {hexs(a + b)}"))
    for _ in range(200 if tier == "quick" else 5000):
        n = 3 + rng.below(4)
        ops.append(("abbr:random", f"si abbr {hexs(''.join(rng.choice(alpha) for _ in range(n)))}"))
    # the Greek mu look-alike and other Unicode near misses
    for s in ("μ", "µ ", " µ", "Μ", "da ", "Da", "DA", "k​"):
        ops.append(("abbr:near-miss", f"si abbr {hexs(s)}"))
    # encodings near every real abbreviation: a code point with the same low byte / low 16 bits (a lookup table
    # indexed by a truncated code point), NUL bytes before / after / between (a packed key that does not encode
    # the length), full-width and small-capital look-alikes, combining marks, other case, surrounding white space
    abbrs = ["", "da"] + [c for c in "qryzafpnµmcdhkMGTPEZYRQ"]
    for s in abbrs:
        vs = ["\0" + s, s + "\0", "\0\0" + s, "\0" + s + "\0", s + s, s + "\u0301", " " + s, s + " ", s + "\n", s.swapcase()]
        if len(s) == 1:
            o = ord(s)
            vs += [chr(o + 0x100 * k) for k in (1, 2, 3, 0x4E)] + [chr(o + 0x10000), chr(0xFEE0 + o) if 0x21 <= o <= 0x7E else "\uFFFD"]
        if len(s) == 2:
            vs += [s[0] + "\0" + s[1], s[1] + s[0], chr(ord(s[0]) + 0x100) + s[1], s[0] + chr(ord(s[1]) + 0x100)]
        for v in vs:
            if v != s and v not in abbrs:
                ops.append(("abbr:encoding", f"si abbr {hexs(v)}"))
    return ops
