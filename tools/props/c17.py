"""C17 — Serialisation round-trips values exactly."""
from world import amounts, enc_f64, f64_from_bits, enc_dec

ID = "C17"
LEAN_MODULES = ["QtyModel.Props.C17", "QtyModel.Props.C17F64"]
HARNESS_GROUPS = ('g_ser',)
# kinds of difference in the macro-level correspondence that are failing inputs here: the serde attributes of the
# generated struct / enum, fields and variants (how a value is serialised is decided there, whatever the format)
MACRO_PARTS = ("serde",)
RULE = ("every unit of every catalogue and synthetic quantity type x finite amounts incl. adversarial ones (17 significant "
        "digits, full mantissas, 18 fractional digits, extreme exponents); JSON text, serde value tree, deserialisation of "
        "both, amount text re-read with an exactly rounding parser; non-trivial = amount neither zero nor one")
TRUSTED_EXTRA = ["modelled: serde_derive / serde_json (struct -> map {amount, unit}, unit enum -> variant name, "
                 "Decimal -> string of its Display text)"]


def adversarial(be, rng):
    out = []
    if be == "f64":
        for _ in range(6):
            m = rng.below(1 << 52)
            e = rng.choice([1, 100, 900, 1023, 1100, 1500, 2000, 2046])
            out.append(("adversarial", enc_f64(f64_from_bits((rng.below(2) << 63) | (e << 52) | m))))
        out.append(("adversarial", enc_f64(0.1 + 0.2)))
        out.append(("adversarial", enc_f64(5e-324)))
        out.append(("adversarial", enc_f64(1.7976931348623157e308)))
        out.append(("adversarial", enc_f64(9007199254740993.0)))
        # the layout thresholds of the JSON number text (positional between 1e-5 and 1e16, `.0` for integers,
        # exponent form outside) and values whose shortest digits end in zeros
        for x in (1e15, 1e16, 1e17, 9999999999999998.0, 1.2345678901234567e16, 123456789012345680000.0, 1e-4, 1e-5,
                  1e-6, 9.999999999999999e-6, 0.00001234, 1e21, 1e22, 1e23, 5e22, 120.0, 1200000.0, 0.5, -0.0, 0.0, 7.0):
            out.append(("layout", enc_f64(x if rng.chance(3, 4) else -x)))
        for _ in range(4):
            out.append(("layout", enc_f64(float(rng.below(10 ** (1 + rng.below(17)))) * 10.0 ** (rng.below(40) - 20))))
        for _ in range(3):   # two shortest candidates exactly equally close (ryu keeps the even digit, Display the upper)
            out.append(("short-tie", enc_f64(float((1 << 49) + rng.below(1 << 49)) + [0.25, 0.75][rng.below(2)])))
    else:
        out.append(("adversarial", enc_dec(123456789012345678, 18)))
        out.append(("adversarial", enc_dec(-1, 18)))
        out.append(("adversarial", enc_dec(10 ** 30 + 7, 18)))
        out.append(("adversarial", enc_dec(1000, 3)))
        out.append(("adversarial", enc_dec(-5000, 1)))
        out.append(("adversarial", enc_dec(2 ** 127 - 1, 0)))
        for _ in range(4):
            out.append(("adversarial", enc_dec(rng.below(10 ** 36) - 10 ** 35, rng.below(19))))
    return out


def gen(w, rng, tier):
    ops = []
    per = 3 if tier == "quick" else 20
    for t in w.types:
        if t["name"] == "AmountT" or t["name"].startswith("A:"):
            continue
        for i, _ in enumerate(t["units"]):
            ams = [a for a in amounts(w.be, rng, 3)] + adversarial(w.be, rng)
            for lab, a in [rng.choice(ams) for _ in range(per)] + ([rng.choice(adversarial(w.be, rng))]):
                ops.append((f"ser:{lab}", f"ser {t['name']} {i} {a}"))
    return ops


def nontrivial(c):
    return not any(z in c.label for z in (":zero", ":one"))
