"""C12 — Malformed quantity definitions are rejected at compile time (partial: syn/rustc modelled)."""
import glob
import os
import sys

import compilecheck as cc
import defgen
import pipeline as pl
from world import Rng

ID = "C12"
LEAN_MODULES = ["QtyModel.Props.C12"]
HARNESS_GROUPS = ()
# kinds of difference in the macro-level correspondence (tools/macrofront.py) that are failing inputs here
MACRO_PARTS = ("verdict:accepted",)
RULE = ("malformed definitions obtained by applying each defect class (no unit, two reference units, scale on the reference "
        "unit, unit without scale beside a reference unit, scale or prefix without reference unit, wrong number / kind of "
        "attribute arguments, struct fields, generics, not a struct, bad derivation argument, derived from / to a type "
        "without reference unit) to seeded well-formed definitions, plus the 13 programs of tests/ui; each in its own module; "
        "cargo check verdict and primary span compared with the model of the macro; non-trivial = each malformed program")
TRUSTED_EXTRA = ["modelled: syn's parsing of attribute arguments and of the derivation expression; proc-macro-error's span "
                 "reporting; rustc's evaluation of the `HasRefUnit` bounds"]


def gen(w, rng, tier):
    return []


def ui_items(path):
    """a tests/ui program -> (module source lines, [item file texts], names)"""
    sys.path.insert(0, os.path.join(pl.VERIF, "tools"))
    import translate
    src = open(path, encoding="utf-8").read()
    items = translate.extract_quantity_items(src, os.path.basename(path))
    texts = []
    for it in items:
        def tk(t):
            if t.kind == "ident":
                return "i:" + t.text.encode().hex()
            if t.kind == "str":
                return "s:" + t.value.encode("utf-8").hex()
            if t.kind in ("int", "float"):
                v = t.value
                return f"n:{v['digits']}:{v['nfrac']}:{v['exp']}:{1 if v['is_float'] else 0}"
            if t.kind == "punct":
                return "c" if t.text == "," else ("o" if t.text in "()[]{}" else f"p:{ord(t.text)}")
            return "o"
        lines = [f"item {it['name'] or 'X'} {'struct' if it['is_struct'] else 'other'} {int(it['has_generics'])} {int(it['has_fields'])}",
                 "args " + " ".join(tk(t) for t in it["args"])]
        for a in it["attrs"]:
            lines.append(f"attr {a['kind']} " + " ".join(tk(t) for t in a["toks"]))
        lines.append("end")
        texts.append("\n".join(lines))
    body = [l for l in src.splitlines() if not l.startswith("//")]
    return body, texts, [it["name"] for it in items]


def extra(tier, seed):
    cov = dict(programs=0, rejected_as_predicted=0, span_checked=0, classes={})
    fails, broken = [], []
    rng = Rng(seed * 15485863 + 3)
    g = defgen.Gen(rng)
    reps = 1 if tier == "quick" else 4
    macro_cases, bound_cases = [], []
    for _ in range(reps):
        macro_cases += defgen.defects(g, rng)
        bound_cases += defgen.refbound_defects(g, rng)
    with cc.TempRoot() as root:
        # ---- model predictions for the generated definitions
        items_path = os.path.join(root, "items.txt")
        with open(items_path, "w", encoding="utf-8") as f:
            f.write("\n".join(d.item_text() for _, d in macro_cases) + "\n")
        rc, out = pl.sh([pl.DRIVER, "f64", "expandf", items_path])
        pred = {}
        for l in out.splitlines():
            ws = l.split(" ")
            pred[ws[1]] = (ws[0], ws[2] if len(ws) > 2 else "")
        # ---- batch A: macro-level defects, one module each
        lines = ["#![allow(unused, non_snake_case, non_camel_case_types)]"]
        ranges = []
        for k, (cls, d) in enumerate(macro_cases):
            lines.append(f"mod m{k} {{")
            lines.append("    use quantities::prelude::*;")
            start = len(lines) + 1
            dl, attr_lines = d.rust_lines()
            base = len(lines)
            lines += dl
            lines.append("}")
            ranges.append((start, len(lines) - 1, cls, d, {i: base + off + 1 for i, off in attr_lines.items()}))
        # tests/ui programs (macro-level ones)
        ui_ranges = []
        for p in sorted(glob.glob(os.path.join(pl.REPO, "tests/ui/*.rs"))):
            body, texts, names = ui_items(p)
            bn = os.path.basename(p)[:-3]
            if bn.startswith("derived_"):
                continue
            with open(os.path.join(root, "ui.txt"), "w", encoding="utf-8") as f:
                f.write("\n".join(texts) + "\n")
            rc, o2 = pl.sh([pl.DRIVER, "f64", "expandf", os.path.join(root, "ui.txt")])
            model_rejects = any(l.startswith("err ") for l in o2.splitlines())
            lines.append(f"mod ui_{bn} {{")
            start = len(lines) + 1
            lines += ["    " + l for l in body]
            lines.append("}")
            ui_ranges.append((start, len(lines) - 1, bn, model_rejects))
        d = cc.make_crate(root, "c12_macro", "\n".join(lines) + "\n", [])
        ok, diags, tail = cc.cargo_check(d, "c12")
        err_lines = [dg for dg in diags if dg.file and dg.file.endswith("src/lib.rs")]
        for (s, e, cls, df, attr_map) in ranges:
            cov["programs"] += 1
            cov["classes"][cls] = cov["classes"].get(cls, 0) + 1
            here = [dg for dg in err_lines if s <= dg.line <= e]
            mp = pred.get(df.name, ("?", ""))
            if mp[0] != "err":
                broken.append(pl.Broken("thm.C12." + cls, f"the model of the macro accepts a definition of defect class {cls}: "
                                        + "\n".join(df.rust_lines()[0])))
            if not here:
                what = f"a definition with defect `{cls}` is not rejected at the definition"
                fails.append(dict(defect=cls, program="\n".join(df.rust_lines()[0]), what=what, model=mp, oracle="FAIL:" + what))
                continue
            cov["rejected_as_predicted"] += 1
            if mp[0] == "err" and mp[1].startswith("attr:"):
                cov["span_checked"] += 1
                want = attr_map.get(int(mp[1].split(":")[1]))
                if want is not None and not any(dg.line == want for dg in here):
                    broken.append(pl.Broken("corr.C12.site", f"{cls}: error reported at lines {[dg.line for dg in here]}, the model says "
                                            f"attribute at line {want}: " + "\n".join(df.rust_lines()[0])))
        for (s, e, bn, model_rejects) in ui_ranges:
            cov["programs"] += 1
            here = [dg for dg in err_lines if s <= dg.line <= e]
            if not model_rejects:
                broken.append(pl.Broken("thm.C12.ui", f"the model accepts tests/ui/{bn}.rs"))
            if not here:
                what = f"tests/ui/{bn}.rs is not rejected"
                fails.append(dict(defect="ui:" + bn, what=what, oracle="FAIL:" + what))
            else:
                cov["rejected_as_predicted"] += 1
        stray = [dg for dg in err_lines if not any(s <= dg.line <= e for (s, e, *_r) in ranges + ui_ranges)]
        if stray:
            broken.append(pl.Broken("corr.C12.stray", f"errors outside the malformed definitions: {[x.as_dict() for x in stray[:3]]}"))
        # ---- batch B: type-level defects (HasRefUnit bounds), separate crate (needs type checking)
        lines = ["#![allow(unused, non_snake_case, non_camel_case_types)]"]
        branges = []
        for k, (cls, defs) in enumerate(bound_cases):
            lines.append(f"mod b{k} {{")
            lines.append("    use quantities::prelude::*;")
            start = len(lines) + 1
            for df in defs:
                lines += df.rust_lines()[0]
            lines.append("}")
            branges.append((start, len(lines) - 1, cls, defs))
        for p in sorted(glob.glob(os.path.join(pl.REPO, "tests/ui/derived_*.rs"))):
            body, texts, names = ui_items(p)
            bn = os.path.basename(p)[:-3]
            lines.append(f"mod ui_{bn} {{")
            start = len(lines) + 1
            lines += ["    " + l for l in body]
            lines.append("}")
            branges.append((start, len(lines) - 1, "ui:" + bn, []))
        d = cc.make_crate(root, "c12_bounds", "\n".join(lines) + "\n", [])
        ok, diags, tail = cc.cargo_check(d, "c12")
        err_lines = [dg for dg in diags if dg.file and dg.file.endswith("src/lib.rs")]
        for (s, e, cls, defs) in branges:
            cov["programs"] += 1
            cov["classes"][cls] = cov["classes"].get(cls, 0) + 1
            here = [dg for dg in err_lines if s <= dg.line <= e]
            if not here:
                what = f"a derived definition of class `{cls}` (operand or result without reference unit) compiles"
                fails.append(dict(defect=cls, program="\n".join(l for df in defs for l in df.rust_lines()[0]), what=what,
                                  oracle="FAIL:" + what))
            else:
                cov["rejected_as_predicted"] += 1
    cov["evaluations"] = cov["programs"]
    cov["distinct_nontrivial"] = cov["programs"]
    cov["samples"] = ["\n".join(macro_cases[0][1].rust_lines()[0]), "\n".join(macro_cases[5][1].rust_lines()[0])]
    return cov, fails, broken
