"""C14 — Table-driven conversions apply the declared affine map."""
from world import amounts, specials

ID = "C14"
LEAN_MODULES = ["QtyModel.Props.C14", "QtyModel.Props.C14RoundTrip", "QtyModel.Props.Backends", "QtyModel.Props.TieConverter", "QtyModel.Props.OracleSoundC14"]
HARNESS_GROUPS = ('g_tconv', 'temp')
TCONV_TYPES = ["Temperature", "S:Sn", "S:Sc", "S:Sa", "Length", "S:Sz"]
RULE = ("random conversion tables (0..12 rows, duplicates, missing pairs) over types with and without reference unit x "
        "all unit pairs x amount classes; the predefined temperature table: its rows, and all 9 unit pairs x finite "
        "temperatures against the exact physical formulas; non-trivial = different units")


def gen(w, rng, tier):
    ops = [("temp:rows", "temp rows")]
    per = 12 if tier == "quick" else 150
    for i in range(3):
        for j in range(3):
            ams = amounts(w.be, rng, 4)
            for _ in range(per):
                lab, a = rng.choice(ams)
                ops.append((f"temp:{'same' if i == j else 'diff'}:{lab}", f"temp conv {i} {a} {j}"))
    ntab = 25 if tier == "quick" else 300
    for tname in TCONV_TYPES:
        if tname not in w.by_name:
            continue
        t = w.by_name[tname]
        n = t["n"]
        for _ in range(ntab):
            nrows = rng.below(13)
            ams = amounts(w.be, rng, 3)
            rows = []
            for _ in range(nrows):
                f, to = rng.below(n), rng.below(n)
                if rows and rng.chance(1, 4):
                    f, to = rows[rng.below(len(rows))][:2]     # duplicate pair
                rows.append((f, to, rng.choice(ams)[1], rng.choice(ams)[1]))
            enc = ";".join(f"{f}:{to}:{fa}:{off}" for f, to, fa, off in rows) or "-"
            if n > 256 and rows:
                # more units than an 8-bit discriminant tells apart: a row for (k, x) is no row for (k+256, x), and
                # converting unit k to unit k+256 is a conversion, not the same-unit identity
                f, to = rows[0][0] % (n - 256), rows[0][1]
                rows[0] = (f, to) + rows[0][2:]
                enc = ";".join(f"{f_}:{t_}:{fa}:{off}" for f_, t_, fa, off in rows)
                lab, a = rng.choice(ams)
                ops.append(("tab:diff:wide", f"tconv {tname} {enc} {f + 256} {a} {to}"))
                ops.append(("tab:diff:wide", f"tconv {tname} {enc} {f} {a} {f + 256}"))
            for _ in range(4):
                i, j = rng.below(n), rng.below(n)
                if rows and rng.chance(1, 2):
                    i, j = rows[rng.below(len(rows))][:2]
                lab, a = rng.choice(ams + specials(w.be)[:2])
                ops.append((f"tab:{'same' if i == j else 'diff'}:{nrows}rows", f"tconv {tname} {enc} {i} {a} {j}"))
    return ops


def nontrivial(c):
    return ":diff:" in c.label
