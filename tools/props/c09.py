"""C09 — Unit registry is complete, ordered and invertible."""
from world import amounts, enc_f64, dec_f64, f64_next, enc_dec, dec_dec

ID = "C09"
LEAN_MODULES = ["QtyModel.Props.C09", "QtyModel.Props.C09Keys", "QtyModel.Props.TieFit", "QtyModel.Props.TieSymbol", "QtyModel.Props.TieAnalyze", "QtyModel.Props.TieCodegen", "QtyModel.Props.Bridge"]
HARNESS_GROUPS = ()
# kinds of difference in the macro-level correspondence (tools/macrofront.py) that are failing inputs here
MACRO_PARTS = ("units", "consts", "variants")
RULE = ("registry dump (iteration order, names, symbols, prefixes, scales, REF_UNIT, constants) of every type; lookup by "
        "every declared symbol, case-flipped / edited near misses and random strings; lookup by every declared scale, "
        "+-1 ulp / last digit and random amounts; non-trivial = distinct op lines")


def hexs(s):
    return "h" + s.encode("utf-8").hex()


def near_misses(sym, rng):
    out = {sym.swapcase(), sym + " ", " " + sym, sym[:-1], sym + sym[-1:] if sym else "x", sym.lower(), sym.upper()}
    if sym:
        i = rng.below(len(sym))
        out.add(sym[:i] + chr((ord(sym[i]) + 1) % 0x250 or 65) + sym[i + 1:])
    out.discard(sym)
    return sorted(out)


def gen(w, rng, tier):
    ops = []
    for t in w.types:
        ops.append(("reg", f"reg {t['name']}"))
        for i in range(t["n"]):
            ops.append(("as_qty", f"asq {t['name']} {i}"))
        syms = [u["symbol"] for u in t["units"]]
        for s in syms:
            ops.append(("fsym:declared", f"fsym {t['name']} {hexs(s)}"))
            for nm in near_misses(s, rng)[: (3 if tier == "quick" else 20)]:
                ops.append(("fsym:near-miss", f"fsym {t['name']} {hexs(nm)}"))
        # symbols of other types
        other = rng.choice(w.types)
        for u in other["units"][:3]:
            ops.append(("fsym:foreign", f"fsym {t['name']} {hexs(u['symbol'])}"))
        for _ in range(3 if tier == "quick" else 30):
            n = rng.below(4)
            s = "".join(chr(rng.choice([rng.below(26) + 97, rng.below(26) + 65, 0xb5, 0xb2, 47, 32])) for _ in range(n))
            ops.append(("fsym:random", f"fsym {t['name']} {hexs(s)}"))
        if t["kind"] == "withref":
            for u in t["units"]:
                sc = u["scale"]
                ops.append(("fscale:declared", f"fscale {t['name']} {sc}"))
                if w.be == "f64":
                    x = dec_f64(sc)
                    for nb in (f64_next(x, True), f64_next(x, False)):
                        ops.append(("fscale:neighbour", f"fscale {t['name']} {enc_f64(nb)}"))
                else:
                    c, n = dec_dec(sc)
                    ops.append(("fscale:neighbour", f"fscale {t['name']} {enc_dec(c + 1, n)}"))
                    if n + 1 <= 18:
                        ops.append(("fscale:same-value-other-digits", f"fscale {t['name']} {enc_dec(c * 10, n + 1)}"))
            for lab, a in amounts(w.be, rng, 2):
                ops.append((f"fscale:{lab}", f"fscale {t['name']} {a}"))
    # "the FIRST unit in that order": where a symbol or a scale occurs at two positions p < q of a type, the lookup
    # is preceded by a successful lookup in ANOTHER type that lands on position q (state remembered from one call
    # to the next — a cached position, say — would then point at the later duplicate)
    for t in w.types:
        seen = {}
        for q, u in enumerate(t["units"]):
            for key, val in (("sym", u["symbol"]), ("scale", u.get("scale") if t["kind"] == "withref" else None)):
                if val is None:
                    continue
                k = (key, val)
                if k in seen:
                    donors = [a for a in w.types if a["name"] != t["name"] and a["n"] > q and
                              (key == "sym" or a["kind"] == "withref")]
                    for a in donors[:6]:
                        if key == "sym":
                            ops.append(("fsym:history", f"fsym {a['name']} {hexs(a['units'][q]['symbol'])}"))
                            ops.append(("fsym:history", f"fsym {t['name']} {hexs(val)}"))
                        else:
                            ops.append(("fscale:history", f"fscale {a['name']} {a['units'][q]['scale']}"))
                            ops.append(("fscale:history", f"fscale {t['name']} {val}"))
                else:
                    seen[k] = q
    return ops
