#!/usr/bin/env python3
"""Parallel evaluation of seeded changes, never touching /repo.

  farm.py init K                 create slot K: /tmp/farm/vfK (copy of /verif with its caches) and
                                 /tmp/farm/repoK (detached git worktree of /repo HEAD + Cargo.lock)
  farm.py sync K                 refresh the tracked + untracked-but-not-ignored files of slot K from /verif
  farm.py run K NAME PATCH [Cxx ...]
                                 apply PATCH to repoK, run the quick checks (default: all 19) of slot K with
                                 VERIF_REPO=repoK, revert; result -> /tmp/farm/results/NAME.json
  farm.py drop K                 remove slot K (worktree and copy)

The registered checks never use this; it only exists to run many seeded changes side by side."""
import json
import os
import shutil
import subprocess
import sys

VERIF = os.path.dirname(os.path.dirname(os.path.abspath(__file__)))
FARM = "/tmp/farm"
ALL = [f"C{i:02d}" for i in range(1, 20)]


def sh(cmd, **kw):
    return subprocess.run(cmd, capture_output=True, text=True, **kw)


def slot(k):
    return os.path.join(FARM, f"vf{k}"), os.path.join(FARM, f"repo{k}")


def init(k):
    vf, rp = slot(k)
    os.makedirs(FARM, exist_ok=True)
    os.makedirs(os.path.join(FARM, "results"), exist_ok=True)
    if not os.path.isdir(rp):
        subprocess.run(["git", "-C", "/repo", "worktree", "add", "-q", "--detach", rp, "HEAD"], check=True)
        shutil.copy("/repo/Cargo.lock", os.path.join(rp, "Cargo.lock"))
    if not os.path.isdir(vf):
        subprocess.run(["cp", "-a", VERIF, vf], check=True)
        shutil.rmtree(os.path.join(vf, ".git"), ignore_errors=True)


def sync(k):
    """refresh slot K from the COMMITTED state of /verif (git archive HEAD), so that edits in progress
    in the working tree never leak into an evaluation"""
    vf, _ = slot(k)
    tmp = os.path.join(FARM, f"export{k}")
    shutil.rmtree(tmp, ignore_errors=True)
    os.makedirs(tmp)
    subprocess.run(f"git -C {VERIF} archive HEAD | tar -x -C {tmp}", shell=True, check=True)
    subprocess.run(["rsync", "-a", "--delete", "--exclude", ".git", "--exclude", ".cache", "--exclude", "lean/.lake",
                    "--exclude", "work", "--exclude", "replays", "--exclude", "harness/target",
                    "--exclude", "lean/QtyModel/Generated", "--exclude", "harness/Cargo.toml",
                    "--exclude", "harness/Cargo.lock", "--exclude", "harness/src/gen_dispatch.rs",
                    "--exclude", "__pycache__", tmp + "/", vf + "/"], check=True)
    shutil.rmtree(tmp, ignore_errors=True)


def run(k, name, patch, props):
    vf, rp = slot(k)
    sync(k)
    subprocess.run(["git", "-C", rp, "checkout", "-q", "--", "."], check=True)
    subprocess.run(["git", "-C", rp, "clean", "-fdq", "-e", "Cargo.lock"], check=False)
    if patch != "-":
        r = sh(["git", "-C", rp, "apply", os.path.abspath(patch)])
        if r.returncode != 0:
            print("patch does not apply:", r.stderr)
            return 2
    env = dict(os.environ, VERIF_REPO=rp, CARGO_NET_OFFLINE="true")
    res = {}
    try:
        for p in props:
            r = sh([os.path.join(vf, "check"), p, "quick"], cwd=vf, env=env)
            lines = [l for l in r.stdout.splitlines() if l.startswith("VIOLATION") or l.startswith("KNOWN") or l.startswith(p)]
            summ = " | ".join(x[:300] for x in lines)
            res[p] = dict(exit=r.returncode, out=summ)
            if r.returncode != 0:
                # keep what the replay file says about obligations / failing case
                for l in lines:
                    if l.startswith("VIOLATION") and "replay=" in l:
                        rpth = l.split("replay=")[1].split()[0]
                        rpth = rpth if os.path.isabs(rpth) else os.path.join(vf, rpth)
                        try:
                            d = json.load(open(rpth))
                            res[p]["broken"] = d.get("broken_obligations", d.get("broken"))
                            res[p]["n_fail"] = d.get("n_failing", None)
                        except Exception as e:  # noqa
                            res[p]["replay_err"] = str(e)
            print(name, p, r.returncode, summ[:240], flush=True)
    finally:
        subprocess.run(["git", "-C", rp, "checkout", "-q", "--", "."], check=True)
        subprocess.run(["git", "-C", rp, "clean", "-fdq", "-e", "Cargo.lock"], check=False)
    with open(os.path.join(FARM, "results", name + ".json"), "w") as f:
        json.dump(res, f, indent=1)
    return 0


def drop(k):
    vf, rp = slot(k)
    sh(["git", "-C", "/repo", "worktree", "remove", "--force", rp])
    shutil.rmtree(vf, ignore_errors=True)
    shutil.rmtree(rp, ignore_errors=True)


if __name__ == "__main__":
    a = sys.argv[1:]
    if a[0] == "init":
        init(a[1])
    elif a[0] == "sync":
        sync(a[1])
    elif a[0] == "run":
        sys.exit(run(a[1], a[2], a[3], a[4:] or ALL))
    elif a[0] == "drop":
        drop(a[1])
