#!/usr/bin/env python3
"""Apply a seeded change to /repo, run the quick checks of the given properties (default: all),
undo the change.  Prints one line per property: exit code and the VIOLATION / summary line."""
import json
import os
import subprocess
import sys

VERIF = os.path.dirname(os.path.dirname(os.path.abspath(__file__)))
REPO = os.environ.get("VERIF_REPO", "/repo")
ALL = [f"C{i:02d}" for i in range(1, 20)]


def main():
    sid = sys.argv[1]
    props = sys.argv[2:] or ALL
    patch = os.path.join(VERIF, "seeded", sid, "patch.diff")
    st = subprocess.run(["git", "-C", REPO, "status", "--porcelain"], capture_output=True, text=True).stdout.strip()
    if st:
        print("repo not clean:", st)
        return 2
    subprocess.run(["git", "-C", REPO, "apply", patch], check=True)
    res = {}
    try:
        for p in props:
            r = subprocess.run([os.path.join(VERIF, "check"), p, "quick"], cwd=VERIF, capture_output=True, text=True)
            lines = [l for l in r.stdout.splitlines() if l.startswith("VIOLATION") or l.startswith(p)]
            res[p] = dict(exit=r.returncode, out=" | ".join(x[:200] for x in lines))
            print(p, r.returncode, res[p]["out"][:260], flush=True)
    finally:
        subprocess.run(["git", "-C", REPO, "checkout", "--", "."], check=True)
        subprocess.run(["git", "-C", REPO, "clean", "-fdq"], check=False)
    with open(os.path.join(VERIF, "work", f"seeded_{sid}.json"), "w") as f:
        json.dump(res, f, indent=1)
    return 0


if __name__ == "__main__":
    sys.exit(main())
