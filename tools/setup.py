#!/usr/bin/env python3
import glob
import os
import sys

sys.path.insert(0, os.path.dirname(os.path.abspath(__file__)))
import pipeline as pl  # noqa: E402


def main():
    try:
        t = pl.prepare()
    except pl.Broken as b:
        print("setup: ", b.obligation, b.detail[-3000:])
        return 1
    try:
        import macrofront
        macrofront.build()
    except pl.Broken as b:
        print("setup: ", b.obligation, b.detail[-3000:])
        return 1
    print("setup: prepared", {k: (round(v, 1) if isinstance(v, float) else v) for k, v in t.items()})
    mods = sorted("QtyModel.Props." + os.path.basename(p)[:-5]
                  for p in glob.glob(os.path.join(pl.LEAN, "QtyModel/Props/*.lean")))
    ok, out = pl.lake_build(mods)
    print(out[-2000:])
    return 0 if ok else 1


if __name__ == "__main__":
    sys.exit(main())
