#!/usr/bin/env python3
"""Translator: regenerates lean/QtyModel/Generated/*.lean and work/tables.json
from the current working tree of the repository (and from the harness'
synthetic definitions).  Files are rewritten only when their content changes.

Usage: translate.py <repo_root> <verif_root>
Exit status 0 = ok, 3 = a construct could not be translated (message on stderr,
and recorded in work/translate_error.json)."""
import json
import os
import re
import sys

sys.path.insert(0, os.path.dirname(os.path.abspath(__file__)))
from rusttok import tokenize, matching, is_p, TokError, lit_value  # noqa: E402
from tcommon import Untranslatable, split_attr, lean_text, lean_lit, catalogue_modules  # noqa: E402


# ---------------------------------------------------------------- items

def extract_quantity_items(src, where):
    """All items carrying a #[quantity] attribute, as raw dictionaries."""
    toks = tokenize(src)
    items = []
    i = 0
    n = len(toks)
    while i < n:
        if is_p(toks[i], "#") and i + 1 < n and is_p(toks[i + 1], "["):
            # gather the attribute run
            attrs = []
            j = i
            while j < n and is_p(toks[j], "#") and j + 1 < n and is_p(toks[j + 1], "["):
                path, inner, j2 = split_attr(toks, j)
                attrs.append((path, inner, toks[j].line))
                j = j2
            qpos = [k for k, a in enumerate(attrs) if a[0] == ["quantity"]]
            if not qpos:
                i = j
                continue
            if len(qpos) > 1:
                raise Untranslatable(f"{where}:{attrs[qpos[1]][2]}: two #[quantity] attributes on one item")
            q = qpos[0]
            # an item compiled conditionally: the tables describe the configuration the correspondence harness is
            # built in — every quantity feature, `std` and `serde` enabled — so a definition gated out there is not
            # a definition of that build (which configurations change WHAT is defined is the business of C19, whose
            # inventory of conditional-compilation sites lists the gate).  A gate on the amount back-end cannot be
            # decided here, the tables being shared by both back-ends.
            gated_out = False
            for a in attrs:
                if a[0] == ["cfg"] and a[1] is not None:
                    try:
                        import translate_tables as _tt
                        e = _tt.cfg_expr(a[1])
                    except Exception as ex:  # noqa: BLE001
                        raise Untranslatable(f"{where}:{a[2]}: cfg on a quantity definition not understood: {ex}")

                    def ev(x):
                        if x[0] == "feature":
                            if x[1] == "fpdec":
                                raise Untranslatable(f"{where}:{a[2]}: a quantity definition gated on the amount back-end")
                            return True
                        if x[0] == "not":
                            return not ev(x[1])
                        if x[0] == "all":
                            return all(ev(y) for y in x[1])
                        if x[0] == "any":
                            return any(ev(y) for y in x[1])
                        if x[0] == "flag":
                            return x[1] != "test"
                        raise Untranslatable(f"{where}:{a[2]}: cfg predicate {x!r} on a quantity definition")
                    if not ev(e):
                        gated_out = True
            for k, a in enumerate(attrs[:q]):
                if a[0] in (["unit"], ["ref_unit"]):
                    raise Untranslatable(f"{where}:{a[2]}: #[{a[0][0]}] before #[quantity]")
            # item header
            k = j
            if k < n and toks[k].kind == "ident" and toks[k].text == "pub":
                k += 1
                if k < n and is_p(toks[k], "("):
                    k = matching(toks, k) + 1
            if k >= n or toks[k].kind != "ident":
                raise Untranslatable(f"{where}:{toks[min(k, n - 1)].line}: item header not understood")
            kw = toks[k].text
            name = toks[k + 1].text if k + 1 < n and toks[k + 1].kind == "ident" else ""
            is_struct = kw == "struct"
            has_generics = False
            has_fields = False
            m = k + 2
            if is_struct:
                if m < n and is_p(toks[m], "<"):
                    depth = 0
                    first = m
                    while m < n:
                        if is_p(toks[m], "<"):
                            depth += 1
                        elif is_p(toks[m], ">"):
                            depth -= 1
                            if depth == 0:
                                break
                        m += 1
                    has_generics = m > first + 1
                    m += 1
                if m < n and toks[m].kind == "ident" and toks[m].text == "where":
                    while m < n and not (is_p(toks[m], "{") or is_p(toks[m], ";") or is_p(toks[m], "(")):
                        m += 1
                if m < n and (is_p(toks[m], "{") or is_p(toks[m], "(")):
                    c = matching(toks, m)
                    has_fields = c > m + 1
                    m = c + 1
            if gated_out:
                i = m if m > j else j
                continue
            items.append(dict(
                where=where, line=attrs[q][2], name=name, is_struct=is_struct,
                has_generics=has_generics, has_fields=has_fields,
                args=attrs[q][1] or [],
                attrs=[dict(kind=a[0][0], toks=a[1] if a[1] is not None else [], line=a[2])
                       for a in attrs[q + 1:] if a[0] in (["unit"], ["ref_unit"])],
            ))
            i = m if m > j else j
            continue
        i += 1
    return items


# ---------------------------------------------------------------- Lean emission

def lean_tok(t):
    if t.kind == "ident":
        return f".ident {lean_text(t.text)}"
    if t.kind == "str":
        return f".str {lean_text(t.value)}"
    if t.kind in ("int", "float"):
        if t.value["suffix"]:
            return ".other"
        return f".{t.kind} {lean_lit(t.value)}"
    if t.kind == "punct":
        if t.text == ",":
            return ".comma"
        if t.text in "()[]{}":
            return ".other"
        return f".punct {ord(t.text)}"
    return ".other"


def lean_ident(name):
    return re.sub(r"[^A-Za-z0-9_]", "_", name)


def emit_items(ns, items, comment):
    out = [f"-- GENERATED by tools/translate.py from {comment}; do not edit.",
           "import QtyModel.Registry", "set_option maxRecDepth 8192",
           f"namespace Qty.Gen.{ns}", "open Qty", ""]
    names = []
    for it in items:
        dn = lean_ident(it["name"][:1].lower() + it["name"][1:]) + "Raw"
        if dn in names:
            dn = dn + str(len(names))
        names.append(dn)
        out.append(f"/-- `{it['name']}` ({it['where']}:{it['line']}) -/")
        out.append(f"def {dn} : RawItem where")
        out.append(f"  name := {lean_text(it['name'])}  -- {it['name']}")
        out.append("  args := [" + ", ".join(lean_tok(t) for t in it["args"]) + "]")
        if not it["is_struct"]:
            out.append("  isStruct := false")
        if it["has_generics"]:
            out.append("  hasGenerics := true")
        if it["has_fields"]:
            out.append("  hasFields := true")
        out.append("  attrs := [")
        rows = []
        for a in it["attrs"]:
            kind = ".refUnit" if a["kind"] == "ref_unit" else ".unit"
            txt = " ".join(t.text for t in a["toks"])
            rows.append(f"    -- {a['kind']}({txt})\n    ⟨{kind}, [" + ", ".join(lean_tok(t) for t in a["toks"]) + "]⟩")
        out.append(",\n".join(rows))
        out.append("  ]")
        out.append("")
    out.append("def items : List RawItem := [" + ", ".join(names) + "]")
    out.append(f"end Qty.Gen.{ns}")
    return "\n".join(out) + "\n"


def write_if_changed(path, content):
    try:
        with open(path, encoding="utf-8") as f:
            if f.read() == content:
                return False
    except FileNotFoundError:
        pass
    os.makedirs(os.path.dirname(path), exist_ok=True)
    with open(path, "w", encoding="utf-8") as f:
        f.write(content)
    return True


def tok_json(t):
    if t.kind in ("int", "float"):
        return dict(k=t.kind, v={k: v for k, v in t.value.items()})
    if t.kind == "str":
        return dict(k="str", v=t.value)
    return dict(k=t.kind, v=t.text)


def items_json(items, crate, module_of):
    out = []
    for it in items:
        out.append(dict(
            name=it["name"], crate=crate, module=module_of(it), line=it["line"], where=it["where"],
            is_struct=it["is_struct"], has_generics=it["has_generics"], has_fields=it["has_fields"],
            args=[tok_json(t) for t in it["args"]],
            attrs=[dict(kind=a["kind"], line=a["line"], toks=[tok_json(t) for t in a["toks"]]) for a in it["attrs"]],
        ))
    return out



# ---------------------------------------------------------------- generated definitions that do not elaborate

def heal_algos(verif, gen, text, name="Algos"):
    """A re-emitted body (or its placeholder) that does not elaborate must not take the other
    definitions of Generated/Algos.lean with it: the file is checked with `lean`; every top-level
    definition an error points into is removed (its tie theorem then fails, and only that), and the
    check is repeated, since definitions that used a removed one fail in turn.
    Returns (text, notes about what was removed).  Nothing is run when the text is what the last run wrote."""
    import subprocess
    path = os.path.join(gen, name + ".lean")
    stamp = os.path.join(verif, "work", name.lower() + "_checked.txt")
    import hashlib
    h = hashlib.sha1(text.encode("utf-8")).hexdigest()
    try:
        if open(stamp).read().strip() == h and open(path, encoding="utf-8").read() == text:
            return text, []
    except OSError:
        pass
    notes = []
    lean_dir = os.path.join(verif, "lean")
    tmp = os.path.join(gen, name + "Check.lean")
    try:
        for _ in range(12):
            with open(tmp, "w", encoding="utf-8") as f:
                f.write(text)
            p = subprocess.run(["lake", "env", "lean", tmp], cwd=lean_dir, stdout=subprocess.PIPE, stderr=subprocess.STDOUT,
                               text=True, timeout=900)
            errs = sorted({int(m.group(1)) for m in re.finditer(name + r"Check\.lean:(\d+):\d+: error", p.stdout)})
            if not errs:
                break
            lines = text.split("\n")
            starts = [i for i, l in enumerate(lines) if re.match(r"(def |theorem |structure |/-- )", l)]
            kill = set()
            for e in errs:
                prev = [i for i in starts if i <= e - 1]
                if not prev:
                    continue
                a = prev[-1]
                # a doc comment belongs to the definition that follows it
                if lines[a].startswith("/-- "):
                    nxt = [i for i in starts if i > a]
                    b0 = nxt[0] if nxt else a
                    if b0 > e - 1:
                        pass
                nxt = [i for i in starts if i > a and not (lines[a].startswith("/-- ") and i == a + 1)]
                # end of the block: the next top-level starter that is not this definition's own `def` line
                b = len(lines)
                for i in starts:
                    if i > a and not (lines[a].startswith("/-- ") and lines[i].startswith("def ") and
                                      all(not lines[k].strip() == "" for k in range(a, i))):
                        b = i
                        break
                # also stop at `end` / `section` lines
                for k in range(a + 1, b):
                    if re.match(r"(end\b|section\b|open |namespace )", lines[k]):
                        b = k
                        break
                kill.add((a, b))
            if not kill:
                notes.append(f"Generated/{name}.lean does not elaborate: " + p.stdout[-400:])
                break
            for a, b in sorted(kill, reverse=True):
                name = next((re.match(r"def (\S+)", lines[k]).group(1) for k in range(a, b) if lines[k].startswith("def ")), "?")
                msg = next((l for l in p.stdout.splitlines() if "error" in l), "")[:200].replace("-/", "- /")
                notes.append(f"{name}: the re-emitted definition does not elaborate and was removed ({msg})")
                lines[a:b] = [f"/- REMOVED `{name}`: the re-emitted definition does not elaborate -/", ""]
            text = "\n".join(lines)
    finally:
        if os.path.exists(tmp):
            os.remove(tmp)
    os.makedirs(os.path.dirname(stamp), exist_ok=True)
    with open(stamp, "w") as f:
        f.write(hashlib.sha1(text.encode("utf-8")).hexdigest())
    return text, notes

# ---------------------------------------------------------------- main pieces

def main():
    repo = os.path.abspath(sys.argv[1]) if len(sys.argv) > 1 else "/repo"
    verif = os.path.abspath(sys.argv[2]) if len(sys.argv) > 2 else "/verif"
    gen = os.path.join(verif, "lean/QtyModel/Generated")
    work = os.path.join(verif, "work")
    os.makedirs(work, exist_ok=True)
    err_path = os.path.join(work, "translate_error.json")
    if os.path.exists(err_path):
        os.remove(err_path)
    changed = []
    tables = {}
    fallback_root = os.path.join(verif, "fallback")
    fallbacks = {}

    def piece(name, fn):
        """fn(root) on the repository; if that source cannot be read, on the snapshot of the
        tree the model was verified against (the piece is then tied by the registry dump only)"""
        try:
            return fn(repo)
        except (Untranslatable, TokError, OSError, ValueError, IndexError, KeyError) as e:
            if not os.path.isdir(fallback_root):
                raise
            fallbacks[name] = f"{type(e).__name__}: {e}"
            sys.stderr.write(f"translate: {name}: {fallbacks[name]} -- using the snapshot\n")
            return fn(fallback_root)

    try:
        # --- catalogue
        mods = piece("modules", catalogue_modules)
        cat_items = []
        for m in mods:
            name = m["module"]
            if name.startswith("amnt_"):
                continue

            def module_items(root, name=name, m=m):
                p = os.path.join(root, "src", name + ".rs")
                if not os.path.exists(p):
                    raise Untranslatable(f"src/lib.rs:{m['line']}: module file src/{name}.rs missing")
                return extract_quantity_items(open(p, encoding="utf-8").read(), f"src/{name}.rs")

            its = piece("catalogue." + name, module_items)
            for it in its:
                it["module"] = name
            cat_items += its
        if write_if_changed(os.path.join(gen, "Catalogue.lean"), emit_items("Catalogue", cat_items, "src/*.rs")):
            changed.append("Catalogue")
        tables["catalogue"] = items_json(cat_items, "quantities", lambda it: it["module"])
        # --- astronomical crate

        def astro(root):
            ap = os.path.join(root, "astronimical_quantities/src/lib.rs")
            return extract_quantity_items(open(ap, encoding="utf-8").read(), "astronimical_quantities/src/lib.rs")

        astro_items = piece("astro", astro)
        if write_if_changed(os.path.join(gen, "Astro.lean"), emit_items("Astro", astro_items, "astronimical_quantities/src/lib.rs")):
            changed.append("Astro")
        tables["astro"] = items_json(astro_items, "astronomical_quantities", lambda it: "")
        # --- synthetic definitions of the harness
        sp = os.path.join(verif, "harness/src/synth.rs")
        synth_items = extract_quantity_items(open(sp, encoding="utf-8").read(), "harness/src/synth.rs") if os.path.exists(sp) else []
        if write_if_changed(os.path.join(gen, "Synth.lean"), emit_items("Synth", synth_items, "/verif/harness/src/synth.rs")):
            changed.append("Synth")
        tables["synth"] = items_json(synth_items, "harness", lambda it: "synth")
        # the two very large synthetic types: in the driver's registry, not in the kernel-evaluated theorems
        bp = os.path.join(verif, "harness/src/synth/big.rs")
        big_items = extract_quantity_items(open(bp, encoding="utf-8").read(), "harness/src/synth/big.rs") if os.path.exists(bp) else []
        if write_if_changed(os.path.join(gen, "SynthBig.lean"), emit_items("SynthBig", big_items, "/verif/harness/src/synth/big.rs")):
            changed.append("SynthBig")
        tables["synth_big"] = items_json(big_items, "harness", lambda it: "synth")
        # --- further tables (SI prefixes, temperature rows, features)
        import translate_tables
        changed += translate_tables.run(repo, verif, gen, tables, write_if_changed, piece)
        # --- the algorithms (a body outside the subset is not fatal for the tables: the
        # generated file then holds a placeholder and the tie theorem about it cannot be proved)
        import translate_algos
        try:
            algos = translate_algos.run(repo)
            notes = list(translate_algos.FAILURES)
        except (Untranslatable, TokError, IndexError, KeyError) as e:
            algos = translate_algos.stub(f"{type(e).__name__}: {e}")
            notes = [f"{type(e).__name__}: {e}"]
        algos, removed = heal_algos(verif, gen, algos)
        notes += removed
        if write_if_changed(os.path.join(gen, "Algos.lean"), algos):
            changed.append("Algos")
        # --- the text output code (Unit::fmt, Quantity::fmt, Display for Rate)
        import translate_fmt
        try:
            ftext, fnotes = translate_fmt.run(repo)
        except (Untranslatable, TokError, IndexError, KeyError, OSError) as e:
            ftext, fnotes = translate_fmt.HEADER + "end Qty.Gen.FmtAlgos\n", [f"{type(e).__name__}: {e}"]
        ftext, fremoved = heal_algos(verif, gen, ftext, "FmtAlgos")
        if write_if_changed(os.path.join(gen, "FmtAlgos.lean"), ftext):
            changed.append("FmtAlgos")
        notes += fnotes + fremoved
        tables["algos_not_translated"] = notes
        tables["fallback"] = fallbacks
    except (Untranslatable, TokError, OSError, ValueError, IndexError, KeyError) as e:
        msg = f"{type(e).__name__}: {e}"
        sys.stderr.write("translate: " + msg + "\n")
        with open(err_path, "w") as f:
            json.dump(dict(error=msg), f)
        return 3
    with open(os.path.join(work, "tables.json"), "w", encoding="utf-8") as f:
        json.dump(tables, f, ensure_ascii=False, indent=1, default=str)
    print("translate: ok; changed:", ",".join(changed) or "nothing")
    return 0


if __name__ == "__main__":
    sys.exit(main())
