#!/usr/bin/env python3
"""Token-level fingerprints of the functions and templates the Lean model transcribes.
When one differs from the committed baseline (`fingerprints.json`, taken on the tree the
model was written against) the checks of the properties that rest on it escalate their
correspondence run to the thorough generator — changed code gets a deeper look.  A changed
fingerprint is NOT an alarm by itself."""
import hashlib
import json
import os
import sys

sys.path.insert(0, os.path.dirname(os.path.abspath(__file__)))
from rusttok import tokenize, matching, is_p  # noqa: E402

# (file, function name) -> properties whose model rests on it
TARGETS = {
    ("src/lib.rs", "from_symbol"): ["C09"], ("src/lib.rs", "as_qty"): ["C09", "C13"],
    ("src/lib.rs", "from_scale"): ["C09"], ("src/lib.rs", "is_ref_unit"): ["C09"],
    ("src/lib.rs", "ratio"): ["C01", "C02", "C03"], ("src/lib.rs", "unit_from_symbol"): ["C09"],
    ("src/lib.rs", "eq"): ["C02", "C10"], ("src/lib.rs", "partial_cmp"): ["C02", "C10"],
    ("src/lib.rs", "add"): ["C03", "C10"], ("src/lib.rs", "sub"): ["C03", "C10"], ("src/lib.rs", "div"): ["C03", "C10", "C13"],
    ("src/lib.rs", "fmt"): ["C15"], ("src/lib.rs", "unit_from_scale"): ["C04", "C05", "C09"],
    ("src/lib.rs", "equiv_amount"): ["C01", "C02", "C03", "C13"], ("src/lib.rs", "convert"): ["C01"],
    ("src/lib.rs", "_fit"): ["C04", "C05", "C18"],
    ("src/rate.rs", "reciprocal"): ["C13"], ("src/rate.rs", "from_qty_vals"): ["C13"], ("src/rate.rs", "mul"): ["C13"],
    ("src/rate.rs", "fmt"): ["C15"], ("src/converter.rs", "convert"): ["C14"],
    ("qty-macros/src/quantity_attr_helper.rs", "parse_args"): ["C11", "C12"],
    ("qty-macros/src/quantity_attr_helper.rs", "parse"): ["C09", "C11", "C12"],
    ("qty-macros/src/quantity_attr_helper.rs", "analyze"): ["C09", "C11", "C12"],
    ("qty-macros/src/quantity_attr_helper.rs", "get_unit_attrs"): ["C11", "C12"],
    ("qty-macros/src/quantity_attr_helper.rs", "ref_unit_def_from_attr"): ["C11", "C12"],
    ("qty-macros/src/quantity_attr_helper.rs", "unit_defs_with_scale_from_attrs"): ["C11", "C12"],
    ("qty-macros/src/quantity_attr_helper.rs", "unit_defs_without_scale_from_attrs"): ["C11", "C12"],
    ("qty-macros/src/quantity_attr_helper.rs", "codegen_unit_constants"): ["C09", "C11"],
    ("qty-macros/src/quantity_attr_helper.rs", "codegen_impl_mul_amnt_unit"): ["C08"],
    ("qty-macros/src/quantity_attr_helper.rs", "codegen_qty_single_unit"): ["C08", "C10", "C17"],
    ("qty-macros/src/quantity_attr_helper.rs", "codegen_impl_quantity"): ["C08", "C17"],
    ("qty-macros/src/quantity_attr_helper.rs", "codegen_qty_without_ref_unit"): ["C10", "C17"],
    ("qty-macros/src/quantity_attr_helper.rs", "codegen_qty_with_ref_unit"): ["C01", "C02", "C03", "C09", "C17"],
    ("qty-macros/src/quantity_attr_helper.rs", "codegen_fn_scale"): ["C07", "C11"],
    ("qty-macros/src/quantity_attr_helper.rs", "codegen_fn_si_prefix"): ["C05", "C07", "C11"],
    ("qty-macros/src/quantity_attr_helper.rs", "codegen_impl_std_traits"): ["C08", "C13", "C15"],
    ("qty-macros/src/quantity_attr_helper.rs", "codegen_impl_qty_sqared"): ["C04", "C05"],
    ("qty-macros/src/quantity_attr_helper.rs", "codegen_impl_qty_mul_qty"): ["C04", "C05"],
    ("qty-macros/src/quantity_attr_helper.rs", "codegen_impl_div_qties"): ["C04", "C05"],
    ("qty-macros/src/quantity_attr_helper.rs", "codegen_impl_mul_div_qties"): ["C04", "C06"],
    ("qty-macros/src/quantity_attr_helper.rs", "codegen"): ["C10", "C11"],
}


def function_bodies(path):
    """name -> list of token-text tuples of every `fn name ... { body }` in the file"""
    toks = tokenize(open(path, encoding="utf-8").read())
    out = {}
    i = 0
    while i < len(toks) - 1:
        if toks[i].kind == "ident" and toks[i].text == "fn" and toks[i + 1].kind == "ident":
            name = toks[i + 1].text
            j = i + 2
            depth = 0
            while j < len(toks) and not (is_p(toks[j], "{") and depth == 0) and not (is_p(toks[j], ";") and depth == 0):
                if toks[j].kind == "punct" and toks[j].text in "([":
                    depth += 1
                elif toks[j].kind == "punct" and toks[j].text in ")]":
                    depth -= 1
                j += 1
            if j < len(toks) and is_p(toks[j], "{"):
                c = matching(toks, j)
                out.setdefault(name, []).append(" ".join(t.text for t in toks[i:c + 1]))
                i = c
        i += 1
    return out


def compute(repo):
    fps = {}
    cache = {}
    for (f, name) in TARGETS:
        p = os.path.join(repo, f)
        if p not in cache:
            try:
                cache[p] = function_bodies(p)
            except (OSError, Exception):  # noqa: BLE001
                cache[p] = {}
        bodies = cache[p].get(name, [])
        fps[f"{f}::{name}"] = hashlib.sha1("\n".join(bodies).encode()).hexdigest()[:16] if bodies else "missing"
    return fps


def changed_properties(repo, verif):
    base_p = os.path.join(verif, "fingerprints.json")
    if not os.path.exists(base_p):
        return set(), []
    base = json.load(open(base_p))
    cur = compute(repo)
    props, names = set(), []
    for (f, name), ps in TARGETS.items():
        k = f"{f}::{name}"
        if base.get(k) != cur.get(k):
            props.update(ps)
            names.append(k)
    return props, names


if __name__ == "__main__":
    repo = sys.argv[1] if len(sys.argv) > 1 else "/repo"
    verif = sys.argv[2] if len(sys.argv) > 2 else os.path.dirname(os.path.dirname(os.path.abspath(__file__)))
    if len(sys.argv) > 3 and sys.argv[3] == "--write":
        json.dump(compute(repo), open(os.path.join(verif, "fingerprints.json"), "w"), indent=1, sort_keys=True)
    print(changed_properties(repo, verif))
