"""Translator for the ALGORITHMS: the default methods of `LinearScaledUnit`, `Quantity` and
`HasRefUnit` (src/lib.rs), `Rate * quantity` (src/rate.rs), `ConversionTable::convert`
(src/converter.rs) and the operator bodies inside the `quote!` templates of qty-macros
(`codegen_impl_qty_sqared`, `codegen_impl_qty_mul_qty`, `codegen_impl_div_qties`, the rate
operators and scalar operators of `codegen_impl_std_traits`).

Each body is parsed (tools/rustexpr.py) and re-emitted as a Lean definition over the
arithmetic interface `Arith A` in the result monad `Res` (explicit `bind`/`pure`, operands
evaluated left to right as Rust does, so that the FIRST panic is the same one).  The result
is `lean/QtyModel/Generated/Algos.lean`; `Props/AlgoTie.lean` proves every generated
definition equal to the hand-written model the property theorems are about, so a change of
the code that changes what is computed breaks a proof obligation on the next run.

Type-directed: the translator knows the types of `self`, the parameters and of the few
library methods these bodies use; whatever it does not know is `Untranslatable`."""
import os

from rusttok import tokenize, matching, is_p
from rustexpr import parse_block, parse_params, ParseError
from tcommon import Untranslatable

LEAN_KEYWORDS = {"from", "to", "at", "in", "fun", "let", "do", "then", "else", "end", "open", "by", "with", "show",
                 "have", "type", "unit", "instance", "where", "match", "if", "for", "return", "mut", "local"}


def lname(x):
    return x + "_" if x in LEAN_KEYWORDS else x


# ------------------------------------------------------------------ monadic term trees
# M ::= ('pure', t) | ('m', t) | ('bind', x, M, M) | ('let', x, t, M) | ('if', c, M, M)
#     | ('match', t, [(pat, M)]) | ('err', ctor)


def emit(m, ind):
    pad = "  " * ind
    k = m[0]
    if k == "pure":
        return f"{pad}pure {paren(m[1])}"
    if k == "m":
        return f"{pad}{m[1]}"
    if k == "err":
        return f"{pad}Except.error Panic.{m[1]}"
    if k == "bind":
        _, x, a, b = m
        if a[0] == "m":
            return f"{pad}bind ({a[1]}) fun {x} =>\n{emit(b, ind)}"
        return f"{pad}bind (\n{emit(a, ind + 2)}) fun {x} =>\n{emit(b, ind)}"
    if k == "let":
        _, x, t, b = m
        return f"{pad}let {x} := {t};\n{emit(b, ind)}"
    if k == "if":
        _, c, a, b = m
        return f"{pad}if {c} then\n{emit(a, ind + 1)}\n{pad}else\n{emit(b, ind + 1)}"
    if k == "match":
        _, t, arms = m
        out = [f"{pad}match {t} with"]
        for pat, body in arms:
            out.append(f"{pad}| {pat} =>\n{emit(body, ind + 2)}")
        return "\n".join(out)
    raise AssertionError(k)


def emit_pure(m, ind):
    """tree without effects -> plain Lean term"""
    pad = "  " * ind
    k = m[0]
    if k == "pure":
        return f"{pad}{m[1]}"
    if k == "let":
        _, x, t, b = m
        return f"{pad}let {x} := {t};\n{emit_pure(b, ind)}"
    if k == "if":
        _, c, a, b = m
        return f"{pad}if {c} then\n{emit_pure(a, ind + 1)}\n{pad}else\n{emit_pure(b, ind + 1)}"
    if k == "match":
        _, t, arms = m
        out = [f"{pad}match {t} with"]
        for pat, body in arms:
            out.append(f"{pad}| {pat} =>\n{emit_pure(body, ind + 2)}")
        return "\n".join(out)
    raise AssertionError(k)


def is_pure(m):
    k = m[0]
    if k == "pure":
        return True
    if k in ("m", "err", "bind"):
        return False
    if k == "let":
        return is_pure(m[3])
    if k == "if":
        return is_pure(m[2]) and is_pure(m[3])
    if k == "match":
        return all(is_pure(b) for _, b in m[2])
    raise AssertionError(k)


# ------------------------------------------------------------------ translation context

class Ctx:
    def __init__(self, where, sigs, tables, self_ty, out_table=None):
        self.where = where
        self.sigs = sigs              # (trait, fn) -> dict(monadic, ret, lean)
        self.tables = tables          # Rust type text -> table name, e.g. {'Self': 'T'}
        self.self_ty = self_ty
        self.out_table = out_table
        self.n = 0
        self.env = {}                 # rust var -> (lean term, type)
        self.qdiv = None              # Lean name of the quantity type's own `Div<Self>` (rate operators)

    def fresh(self, base="t"):
        self.n += 1
        return f"{base}{self.n}"

    def fail(self, msg):
        raise Untranslatable(f"{self.where}: {msg}")


# types: ('amt',) ('bool',) ('ord',) ('unit', T) ('qty', T) ('opt', ty) ('list', ty) ('optprefix', T, term)
AMT, BOOL, ORD = ("amt",), ("bool",), ("opt", ("ordering",))


def wrap(binds, tail):
    """binds: list of ('bind', x, M) | ('let', x, t) in order; tail: M"""
    m = tail
    for b in reversed(binds):
        if b[0] == "bind":
            # `bind m fun x => pure x`  ==>  m
            if m == ("pure", b[1]):
                m = b[2]
            else:
                m = ("bind", b[1], b[2], m)
        else:
            m = ("let", b[1], b[2], m)
    return m


def paren(t):
    if all(ch.isalnum() or ch in "_.'" for ch in t) or (t.startswith("(") and matching_paren(t)):
        return t
    return f"({t})"


def matching_paren(t):
    d = 0
    for i, ch in enumerate(t):
        if ch == "(":
            d += 1
        elif ch == ")":
            d -= 1
            if d == 0 and i != len(t) - 1:
                return False
    return d == 0


ARITH = {"+": "add", "-": "sub", "*": "mul", "/": "div"}
CMP = {"<": "lt", "<=": "le", ">": "gt", ">=": "ge"}


RATE_FIELDS = {"term_amount": ("termAmount", "amt"), "term_unit": ("termUnit", "tunit"),
               "per_unit_multiple": ("perMultiple", "amt"), "per_unit": ("perUnit", "punit")}


def rate_field_ty(rty, f):
    return AMT if f == "amt" else ("unit", rty[1] if f == "tunit" else rty[2])


def strip_ref(e):
    while e[0] == "unary" and e[1] in ("&", "*") or e[0] == "paren":
        e = e[2] if e[0] == "unary" else e[1]
    return e


def tr(cx, e):
    """expression -> (binds, pure term, type)"""
    e = strip_ref(e)
    k = e[0]
    if k == "path":
        segs = e[1]
        if len(segs) == 1:
            v = segs[0]
            if v in cx.env:
                return [], cx.env[v][0], cx.env[v][1]
            if v == "AMNT_ONE":
                return [], "R.one", AMT
            if v == "AMNT_ZERO":
                return [], "R.zero", AMT
            if v == "None":
                return [], "none", ("opt", None)
            cx.fail(f"unknown name `{v}`")
        if segs == ["Self", "REF_UNIT"]:
            t = cx.tables["Self"]
            return [], f"{t}.ref", ("unit", t)
        cx.fail(f"unknown path `{'::'.join(segs)}`")
    if k == "bin":
        _, op, l, r = e
        bl, tl, tyl = tr(cx, l)
        br, t_r, tyr = tr(cx, r)
        if op in ("&&", "||"):
            if tyl != BOOL or tyr != BOOL:
                cx.fail(f"`{op}` on non-boolean operands")
            if br:
                cx.fail(f"right operand of the short-circuit `{op}` has effects")
            return bl, f"({tl} {op} {t_r})", BOOL
        if tyl == AMT and tyr == AMT:
            if op in ARITH:
                x = cx.fresh()
                return bl + br + [("bind", x, ("m", f"R.{ARITH[op]} {paren(tl)} {paren(t_r)}"))], x, AMT
            if op == "==":
                return bl + br, f"R.beq {paren(tl)} {paren(t_r)}", BOOL
            if op == "!=":
                return bl + br, f"(!R.beq {paren(tl)} {paren(t_r)})", BOOL
            if op in CMP:
                return bl + br, f"R.{CMP[op]} {paren(tl)} {paren(t_r)}", BOOL
        if tyl[0] == "qty" and tyl == tyr and op == "/" and cx.qdiv:
            x = cx.fresh()
            return bl + br + [("bind", x, ("m", f"{cx.qdiv} {paren(tl)} {paren(t_r)}"))], x, AMT
        if tyl == ("str",) and tyr == ("str",) and op in ("==", "!="):
            t = f"({tl} == {t_r})"
            return bl + br, (t if op == "==" else f"(!{t})"), BOOL
        if tyl[0] == "unit" and tyl == tyr and op in ("==", "!="):
            t = f"decide ({tl} = {t_r})"
            return bl + br, (t if op == "==" else f"(!{t})"), BOOL
        cx.fail(f"operator `{op}` on {tyl} and {tyr}")
    if k == "unary":
        _, op, a = e
        ba, ta, tya = tr(cx, a)
        if op == "!" and tya == BOOL:
            return ba, f"(!{ta})", BOOL
        if op == "-" and tya == AMT:
            x = cx.fresh()
            return ba + [("bind", x, ("m", f"R.neg {paren(ta)}"))], x, AMT
        cx.fail(f"unary `{op}` on {tya}")
    if k == "mcall":
        return tr_mcall(cx, e)
    if k == "call":
        return tr_call(cx, e)
    if k in ("if", "match", "block"):
        m, ty = mon(cx, e)
        if is_pure(m) and m[0] == "pure":
            return [], m[1], ty
        x = cx.fresh()
        if is_pure(m):
            return [("let", x, "(\n" + emit_pure(m, 3) + ")")], x, ty
        return [("bind", x, m)], x, ty
    if k == "field":
        br, t, ty = tr(cx, e[1])
        if ty[0] == "rate" and e[2] in RATE_FIELDS:
            lf, fty = RATE_FIELDS[e[2]]
            return br, f"{paren(t)}.{lf}", rate_field_ty(ty, fty)
        if ty[0] == "convtable" and e[2] == "mappings":
            return br, t, ("list", ("row", ty[1]))
        cx.fail(f"field `.{e[2]}` of a value of type {ty}")
    if k == "struct":
        _, segs, fields = e
        if segs[-1] not in ("Self", "Rate") or [f for f, _ in fields] != list(RATE_FIELDS):
            cx.fail(f"struct literal `{'::'.join(segs)}` with fields {[f for f, _ in fields]}")
        binds, terms, tys = [], [], []
        for _, fe in fields:
            b, t, ty = tr(cx, fe)
            binds += b
            terms.append(t)
            tys.append(ty)
        if not (tys[0] == AMT and tys[1][0] == "unit" and tys[2] == AMT and tys[3][0] == "unit"):
            cx.fail(f"Rate fields of types {tys}")
        body = ", ".join(f"{RATE_FIELDS[f][0]} := {t}" for (f, _), t in zip(fields, terms))
        return binds, f"({{ {body} }} : Rate A)", ("rate", tys[1][1], tys[3][1])
    if k == "lit":
        cx.fail(f"literal `{e[2]}` (amount literals go through Amnt!)")
    cx.fail(f"expression form `{k}` is outside the subset")


def closure1(cx, c, elem_ty):
    """one-parameter closure with a pure boolean body -> Lean lambda"""
    c = strip_ref(c)
    if c[0] != "closure" or len(c[1]) != 1:
        cx.fail("closure with one parameter expected")
    pat = c[1][0]
    while pat[0] == "pref":
        pat = pat[1]
    if pat[0] != "pid":
        cx.fail("closure parameter pattern not understood")
    v = pat[1]
    saved = cx.env.get(v)
    cx.env[v] = (lname(v), elem_ty)
    b, t, ty = tr(cx, c[2])
    if saved is None:
        del cx.env[v]
    else:
        cx.env[v] = saved
    if b:
        cx.fail("closure body has effects (arithmetic that can panic)")
    return f"(fun {lname(v)} => {t})", ty


def tr_mcall(cx, e):
    _, recv, name, args = e
    recv_s = strip_ref(recv)
    # stateful iterator variable: `it.next()`
    if name == "next" and recv_s[0] == "path" and len(recv_s[1]) == 1 and not args:
        v = recv_s[1][0]
        t, ty = cx.env.get(v, (None, None))
        if ty is None or ty[0] != "list":
            cx.fail("`.next()` on something that is not an iterator variable")
        v2 = cx.fresh(lname(v))
        cx.env[v] = (v2, ty)
        return [("let", v2, f"List.tail {t}")], f"(List.head? {t})", ("opt", ty[1])
    br, t, ty = tr(cx, recv)
    if ty[0] == "qty":
        T = ty[1]
        if name == "unit" and not args:
            return br, f"{t}.unit", ("unit", T)
        if name == "amount" and not args:
            return br, f"{t}.amount", AMT
        if name in ("equiv_amount", "convert") and len(args) == 1:
            ba, ta, tya = tr(cx, args[0])
            if tya != ("unit", T):
                cx.fail(f"`{name}` with an argument of type {tya}")
            return call_sig(cx, ("HasRefUnit", name), T, br + ba, [t, ta])
    if ty[0] == "unit":
        T = ty[1]
        if name == "scale" and not args:
            return br, f"{T}.scale {paren(t)}", AMT
        if name == "si_prefix" and not args:
            return br, t, ("optprefix", T)
        if name == "symbol" and not args and T == "S":
            return br, f"S.symbol {paren(t)}", ("str",)
        if name == "ratio" and len(args) == 1:
            ba, ta, tya = tr(cx, args[0])
            if tya != ty:
                cx.fail("`ratio` between units of different types")
            return call_sig(cx, ("LinearScaledUnit", "ratio"), T, br + ba, [t, ta])
        if name == "is_ref_unit" and not args:
            return call_sig(cx, ("LinearScaledUnit", "is_ref_unit"), T, br, [t])
        if name == "as_qty" and not args:
            return call_sig(cx, ("Unit", "as_qty"), T, br, [t])
    if ty[0] == "optprefix":
        if name == "is_some" and not args:
            return br, f"{ty[1]}.hasPrefix {paren(t)}", BOOL
        if name == "is_none" and not args:
            return br, f"(!{ty[1]}.hasPrefix {paren(t)})", BOOL
    if ty[0] == "list":
        if name == "filter" and len(args) == 1:
            lam, lt = closure1(cx, args[0], ty[1])
            if lt != BOOL:
                cx.fail("filter predicate is not boolean")
            return br, f"(List.filter {lam} {paren(t)})", ty
        if name == "find" and len(args) == 1:
            lam, lt = closure1(cx, args[0], ty[1])
            if lt != BOOL:
                cx.fail("find predicate is not boolean")
            return br, f"(List.find? {lam} {paren(t)})", ("opt", ty[1])
        if name == "last" and not args:
            return br, f"(List.getLast? {paren(t)})", ("opt", ty[1])
    if ty[0] == "rate" and name in RATE_FIELDS and not args:
        sig = cx.sigs.get(("Rate", name))
        if sig is None:
            cx.fail(f"`Rate::{name}` is used before it is translated")
        return br, f"({sig['lean']} R {paren(t)})", rate_field_ty(ty, RATE_FIELDS[name][1])
    if ty[0] == "list" and name == "iter" and not args:
        return br, t, ty
    if ty[0] == "list" and ty[1][0] == "row" and name == "find_map" and len(args) == 1:
        return tr_find_map(cx, br, t, ty[1], args[0])
    if ty[0] == "opt":
        if name == "unwrap" and not args:
            x = cx.fresh()
            return br + [("bind", x, ("m", f"unwrapOpt {paren(t)}"))], x, ty[1]
    cx.fail(f"method `.{name}()` on a value of type {ty}")


def tr_find_map(cx, br, rows, row_ty, c):
    """`rows.find_map(|(from, to, factor, offset)| cond.then(|| body))`: the first row for which
    `cond` holds decides; `body` is evaluated for that row only"""
    c = strip_ref(c)
    if c[0] != "closure" or len(c[1]) != 1 or c[1][0][0] != "ptuple" or len(c[1][0][1]) != 4:
        cx.fail("find_map closure: pattern (from, to, factor, offset) expected")
    names = []
    for p in c[1][0][1]:
        while p[0] == "pref":
            p = p[1]
        if p[0] != "pid":
            cx.fail("find_map closure pattern")
        names.append(p[1])
    body = c[2]
    while body[0] in ("block", "paren"):
        if body[0] == "block":
            if body[1] or body[2] is None:
                cx.fail("find_map closure with statements")
            body = body[2]
        else:
            body = body[1]
    if body[0] != "mcall" or body[2] != "then" or len(body[3]) != 1:
        cx.fail("find_map closure body is not `cond.then(|| value)`")
    inner = strip_ref(body[3][0])
    if inner[0] != "closure" or inner[1]:
        cx.fail("`.then` needs a closure without parameters")
    T = row_ty[1]
    saved = dict(cx.env)
    r = cx.fresh("row")
    for n_, (f, ty) in zip(names, (("fromU", ("unit", T)), ("toU", ("unit", T)), ("factor", AMT), ("offset", AMT))):
        cx.env[n_] = (f"{r}.{f}", ty)
    bc, tc, tyc = tr(cx, body[1])
    if bc or tyc != BOOL:
        cx.fail("find_map condition has effects or is not boolean")
    mv, tyv = mon(cx, inner[2])
    cx.env = saved
    # value of the chosen row, wrapped in Some
    x = cx.fresh()
    some_m = map_tail(mv, lambda t_: f"(some {paren(t_)})")
    m = ("match", f"(List.find? (fun {r} => {tc}) {rows})", [("none", ("pure", "none")), (f"some {r}", some_m)])
    return br + [("bind", x, m)], x, ("opt", tyv)


def map_tail(m, f):
    """apply f to the value every path of M ends in; None if a path ends in a bare monadic term"""
    k = m[0]
    if k == "pure":
        return ("pure", f(m[1]))
    if k == "err":
        return m
    if k == "m":
        x = "v"
        return ("bind", x, m, ("pure", f(x)))
    if k == "bind":
        return ("bind", m[1], m[2], map_tail(m[3], f))
    if k == "let":
        return ("let", m[1], m[2], map_tail(m[3], f))
    if k == "if":
        return ("if", m[1], map_tail(m[2], f), map_tail(m[3], f))
    if k == "match":
        return ("match", m[1], [(p_, map_tail(b_, f)) for p_, b_ in m[2]])
    raise AssertionError(k)


def call_sig(cx, key, T, binds, args):
    sig = cx.sigs.get(key)
    if sig is None:
        cx.fail(f"`{key[0]}::{key[1]}` is used before it is translated")
    term = f"{sig['lean']} R " + (f"{T} " if sig.get("tabs", True) else "") + " ".join(paren(a) for a in args)
    if sig["monadic"]:
        x = cx.fresh()
        return binds + [("bind", x, ("m", term))], x, subst_T(sig["ret"], T)
    return binds, f"({term})", subst_T(sig["ret"], T)


def unify(cx, a, b):
    """types of two branches -> common type (None = diverges; ('opt', None) = a bare `None`)"""
    if a is None:
        return b
    if b is None:
        return a
    if a == b:
        return a
    if a[0] == "opt" and b[0] == "opt":
        if a[1] is None:
            return b
        if b[1] is None:
            return a
    cx.fail(f"branches of different types {a} / {b}")


def subst_T(ty, T):
    if ty[0] in ("unit", "qty", "optprefix"):
        return (ty[0], T)
    if ty[0] in ("opt", "list") and ty[1] is not None:
        return (ty[0], subst_T(ty[1], T))
    return ty


def table_of(cx, segs):
    """`Self`, `Self::Output`, `Self::UnitType` ... -> table name"""
    key = "::".join(segs)
    if key in cx.tables:
        return cx.tables[key]
    cx.fail(f"unknown type `{key}`")


def tr_call(cx, e):
    _, f, args = e
    if f[0] == "qpath":
        # <Self::Output as HasRefUnit>::_fit(x)
        ty_key = f[1].replace(" ", "")
        T = cx.tables.get(ty_key)
        if T is None:
            cx.fail(f"unknown type `{f[1]}`")
        segs = [f[2].replace(" ", "")] + f[3]
    elif f[0] == "path":
        segs = f[1]
        T = None
    else:
        cx.fail("call of a computed function")
    targs = [tr(cx, a) for a in args]
    binds = [b for x in targs for b in x[0]]
    terms = [x[1] for x in targs]
    tys = [x[2] for x in targs]
    if segs == ["Some"] and len(tys) == 1:
        return binds, f"(some {paren(terms[0])})", ("opt", tys[0])
    if f[0] == "qpath" and len(segs) == 2 and (segs[0], segs[1]) in cx.sigs and tys and tys[0][0] == "qty":
        return call_sig(cx, (segs[0], segs[1]), tys[0][1], binds, terms)
    if segs == ["Rate", "new"] and len(tys) == 4 and tys[0] == AMT and tys[1][0] == "unit" and tys[2] == AMT \
            and tys[3][0] == "unit":
        sig = cx.sigs.get(("Rate", "new"))
        if sig is None:
            cx.fail("`Rate::new` is used before it is translated")
        return binds, f"({sig['lean']} R " + " ".join(paren(t) for t in terms) + ")", ("rate", tys[1][1], tys[3][1])
    if segs == ["PartialOrd", "partial_cmp"] and tys == [AMT, AMT]:
        return binds, f"R.pcmp {paren(terms[0])} {paren(terms[1])}", ORD
    if segs[-1] == "new" and len(segs) >= 2 and tys and tys[0] == AMT and len(tys) == 2 and tys[1][0] == "unit":
        Tn = table_of(cx, segs[:-1])
        if tys[1][1] != Tn:
            cx.fail("`new` with a unit of another quantity type")
        return binds, f"(⟨{terms[0]}, {terms[1]}⟩ : Q A _)", ("qty", Tn)
    if segs[-1] in ("iter_units", "iter") and not args:
        Tn = table_of(cx, [s for s in segs[:-1] if s != "UnitType"])
        return binds, f"{Tn}.units", ("list", ("unit", Tn))
    if segs[-1] in ("unit_from_scale", "from_scale") and tys == [AMT]:
        Tn = T or table_of(cx, [s for s in segs[:-1] if s != "UnitType"])
        key = ("HasRefUnit", "unit_from_scale") if segs[-1] == "unit_from_scale" else ("LinearScaledUnit", "from_scale")
        return call_sig(cx, key, Tn, binds, terms)
    if segs[-1] == "_fit" and tys == [AMT]:
        Tn = T or table_of(cx, segs[:-1])
        # `impl HasRefUnit for AmountT` overrides `_fit`; which body runs is decided by the
        # output type, so the call goes through the table's own `fit`
        x = cx.fresh()
        return binds + [("bind", x, ("m", f"fitOf R {Tn} {paren(terms[0])}"))], x, ("qty", Tn)
    cx.fail(f"call of `{'::'.join(segs)}` with {tys}")


def pat_opt(cx, pat):
    while pat[0] == "pref":
        pat = pat[1]
    if pat[0] == "pts" and pat[1] == ["Some"] and len(pat[2]) == 1:
        p = pat[2][0]
        while p[0] == "pref":
            p = p[1]
        if p[0] == "pid":
            return "some", p[1]
        if p[0] == "pwild":
            return "some", "_"
    if pat[0] == "ppath" and pat[1] == ["None"]:
        return "none", None
    cx.fail("match pattern outside the subset (Some(x) / None)")


def panic_class(cx, toks):
    if toks and toks[0].kind == "str" and toks[0].value.startswith("Can't "):
        return "unitMismatch"
    cx.fail("panic! whose message is not one of the documented unit-mismatch messages")


def mon(cx, e):
    """expression in tail position -> (M, type)"""
    e0 = e
    while e0[0] == "paren":
        e0 = e0[1]
    k = e0[0]
    if k == "block":
        return mon_block(cx, e0[1], e0[2])
    if k == "return":
        if e0[1] is None:
            cx.fail("return without a value")
        return mon(cx, e0[1])
    if k == "macro":
        if e0[1] == "panic":
            return ("err", panic_class(cx, e0[2])), None
        cx.fail(f"macro `{e0[1]}!`")
    if k == "if":
        _, c, a, b = e0
        if c[0] == "let":
            cx.fail("if let")
        if b is None:
            cx.fail("`if` without `else` in value position")
        bc, tc, tyc = tr(cx, c)
        if tyc != BOOL:
            cx.fail("condition is not boolean")
        saved = dict(cx.env)
        ma, tya = mon(cx, a)
        cx.env = dict(saved)
        mb, tyb = mon(cx, b)
        cx.env = saved
        ty = unify(cx, tya, tyb)
        if tc.startswith("decide (") and tc.endswith(")") and matching_paren(tc[7:]):
            tc = tc[8:-1]
        return wrap(bc, ("if", tc, ma, mb)), ty
    if k == "match":
        _, scrut, arms = e0
        bs, ts, tys = tr(cx, scrut)
        if tys[0] != "opt":
            cx.fail("match on something that is not an Option")
        out = []
        ty = None
        for pat, guard, body in arms:
            if guard is not None:
                cx.fail("match guard")
            kind, v = pat_opt(cx, pat)
            saved = dict(cx.env)
            if kind == "some" and v != "_":
                cx.env[v] = (lname(v), tys[1])
            mb, tyb = mon(cx, body)
            cx.env = saved
            ty = unify(cx, ty, tyb)
            out.append((f"some {lname(v)}" if kind == "some" else "none", mb))
        if sorted(p.split()[0] for p, _ in out) != ["none", "some"]:
            cx.fail("match on an Option needs exactly the arms Some(..) and None")
        return wrap(bs, ("match", ts, out)), ty
    b, t, ty = tr(cx, e0)
    return wrap(b, ("pure", t)), ty


def ends_in_return(block):
    _, stmts, tail = block
    if tail is not None:
        return tail[0] == "return"
    return bool(stmts) and stmts[-1][0] == "expr" and stmts[-1][1][0] == "return"


def mon_block(cx, stmts, tail):
    binds = []
    for idx, s in enumerate(stmts):
        if s[0] == "let":
            _, pat, _ty, init = s
            while pat[0] == "pref":
                pat = pat[1]
            if pat[0] != "pid" or init is None:
                cx.fail("let pattern outside the subset")
            b, t, ty = tr(cx, init)
            binds += b
            v = pat[1]
            if all(ch.isalnum() or ch in "_." for ch in t):
                cx.env[v] = (t, ty)
            else:
                x = lname(v) if lname(v) not in {bb[1] for bb in binds} else cx.fresh(lname(v))
                binds.append(("let", x, t))
                cx.env[v] = (x, ty)
            continue
        _, e, _semi = s
        if e[0] == "if" and e[3] is None and e[1][0] != "let" and ends_in_return(e[2]):
            # if c { ...; return X; }  REST   ==>   if c then X else REST
            bc, tc, tyc = tr(cx, e[1])
            if tyc != BOOL:
                cx.fail("condition is not boolean")
            saved = dict(cx.env)
            ma, tya = mon(cx, e[2])
            cx.env = dict(saved)
            mb, tyb = mon_block(cx, stmts[idx + 1:], tail)
            cx.env = saved
            if tc.startswith("decide (") and tc.endswith(")") and matching_paren(tc[7:]):
                tc = tc[8:-1]
            return wrap(binds + bc, ("if", tc, ma, mb)), unify(cx, tya, tyb)
        if e[0] in ("return", "macro"):
            m, ty = mon(cx, e)
            return wrap(binds, m), ty
        cx.fail(f"statement form `{e[0]}` is outside the subset")
    if tail is None:
        cx.fail("block without a value")
    m, ty = mon(cx, tail)
    return wrap(binds, m), ty



# ------------------------------------------------------------------ the ordering part of `analyze`

UNITDEF_TEXT = {("name", "value"): "name", ("symbol", "value"): "symbol", ("unit_ident", "to_string"): "ident",
                ("unit_ident", None): "ident"}


def cmp_expr(where, e, env):
    """expression inside a `sort_by` closure -> (Lean term, type) with types 'key' (f64 sort key),
    'text', 'optord', 'ord'"""
    e = strip_ref(e)
    k = e[0]
    if k == "path" and len(e[1]) == 1 and e[1][0] in env:
        return env[e[1][0]]
    if k == "call" and e[1] == ("path", ["opt_lit_to_f64"]) and len(e[2]) == 1:
        a = strip_ref(e[2][0])
        if a[0] == "field" and a[2] == "scale":
            v = strip_ref(a[1])
            if v[0] == "path" and len(v[1]) == 1 and env.get(v[1][0], (None, None))[1] == "unitdef":
                return f"sortKey {env[v[1][0]][0]}", "key"
        raise Untranslatable(f"{where}: opt_lit_to_f64 of something that is not `<unit>.scale`")
    if k == "field":
        v = strip_ref(e[1])
        if v[0] == "path" and len(v[1]) == 1 and env.get(v[1][0], (None, None))[1] == "unitdef" \
                and (e[2], None) in UNITDEF_TEXT:
            return f"{env[v[1][0]][0]}.{UNITDEF_TEXT[(e[2], None)]}", "text"
    if k == "mcall":
        _, recv, name, args = e
        r0 = strip_ref(recv)
        if r0[0] == "field" and not args and (r0[2], name) in UNITDEF_TEXT:
            v = strip_ref(r0[1])
            if v[0] == "path" and len(v[1]) == 1 and env.get(v[1][0], (None, None))[1] == "unitdef":
                return f"{env[v[1][0]][0]}.{UNITDEF_TEXT[(r0[2], name)]}", "text"
        t, ty = cmp_expr(where, recv, env)
        if name in ("clone", "as_str", "to_owned", "to_string") and not args and ty == "text":
            return t, ty
        if name == "partial_cmp" and len(args) == 1 and ty == "key":
            t2, ty2 = cmp_expr(where, args[0], env)
            if ty2 == "key":
                return f"(F64.pcmp ({t}) ({t2}))", "optord"
        if name == "cmp" and len(args) == 1 and ty == "text":
            t2, ty2 = cmp_expr(where, args[0], env)
            if ty2 == "text":
                return f"(textCmp {t} {t2})", "ord"
        if name == "unwrap" and not args and ty == "optord":
            return f"(unwrapOrd {t})", "ord"
        if name == "reverse" and not args and ty == "ord":
            return f"(Ordering.swap {t})", "ord"
        if name == "then" and len(args) == 1 and ty == "ord":
            t2, ty2 = cmp_expr(where, args[0], env)
            if ty2 == "ord":
                return f"(Ordering.then {t} {t2})", "ord"
        if name == "then_with" and len(args) == 1 and ty == "ord":
            c = strip_ref(args[0])
            if c[0] == "closure" and not c[1]:
                t2, ty2 = cmp_body(where, c[2], env)
                if ty2 == "ord":
                    return f"(Ordering.then {t} {t2})", "ord"
        raise Untranslatable(f"{where}: `.{name}()` on a value of type {ty} in a sort comparator")
    raise Untranslatable(f"{where}: expression form `{k}` in a sort comparator")


def cmp_body(where, e, env):
    e = strip_ref(e)
    if e[0] != "block":
        return cmp_expr(where, e, env)
    env = dict(env)
    for st in e[1]:
        if st[0] != "let" or st[1][0] != "pid" or st[3] is None:
            raise Untranslatable(f"{where}: statement in a sort comparator")
        env[st[1][1]] = cmp_expr(where, st[3], env)
    if e[2] is None:
        raise Untranslatable(f"{where}: sort comparator without a value")
    return cmp_expr(where, e[2], env)


def comparator(where, c):
    """closure |a, b| -> Ordering   ==>   Lean `fun a b => <not Greater>` (what a stable sort keeps in place)"""
    c = strip_ref(c)
    if c[0] != "closure" or len(c[1]) != 2 or any(p[0] != "pid" for p in c[1]):
        raise Untranslatable(f"{where}: sort_by needs a closure |a, b|")
    a, b = c[1][0][1], c[1][1][1]
    t, ty = cmp_body(where, c[2], {a: ("a", "unitdef"), b: ("b", "unitdef")})
    if ty != "ord":
        raise Untranslatable(f"{where}: sort comparator of type {ty}")
    return f"(fun a b => {t} != Ordering.gt)"


def mentions_units(e):
    if isinstance(e, tuple):
        if e[:1] == ("field",) and e[2] == "units":
            return True
        return any(mentions_units(x) for x in e)
    if isinstance(e, list):
        return any(mentions_units(x) for x in e)
    return False


def analyze_path(where, block, has_ref):
    """symbolic execution of `analyze` along the path with / without a #[ref_unit] attribute:
    -> (Lean list expression for `qty_def.units`, kind of attribute parser used)"""
    state = {"units": None, "parser": None}
    REF = "ref"

    def value(e):
        e = strip_ref(e)
        if e[0] == "call" and e[1][0] == "path" and len(e[1][1]) == 1:
            f = e[1][1][0]
            if f in ("unit_defs_with_scale_from_attrs", "unit_defs_without_scale_from_attrs"):
                state["parser"] = f
                return "units"
        if e[0] == "match":
            sc = strip_ref(e[1])
            if sc == ("path", ["opt_ref_unit_attr"]):
                for pat, guard, body in e[2]:
                    is_some = pat[0] == "pts" and pat[1] == ["Some"]
                    is_none = pat[0] == "ppath" and pat[1] == ["None"]
                    if guard is None and ((is_some and has_ref) or (is_none and not has_ref)):
                        return value(body)
        raise Untranslatable(f"{where}: value assigned to `units` not understood")

    def run(stmts, tail):
        items = list(stmts) + ([("expr", tail, False)] if tail is not None else [])
        for st in items:
            if st[0] == "let":
                if mentions_units(st[3]):
                    raise Untranslatable(f"{where}: `units` read in a let")
                continue
            e = st[1]
            if e[0] == "if" and e[1][0] == "let":
                _, pat, scrut = e[1]
                if strip_ref(scrut) != ("path", ["opt_ref_unit_attr"]) or pat[0] != "pts" or pat[1] != ["Some"]:
                    if mentions_units(e):
                        raise Untranslatable(f"{where}: `if let` around `units`")
                    continue
                br = e[2] if has_ref else e[3]
                if br is not None:
                    if br[0] != "block":
                        raise Untranslatable(f"{where}: else-if around `units`")
                    run(br[1], br[2])
                continue
            if e[0] == "assign" and e[1] == "=" and e[2][0] == "field" and e[2][2] == "units":
                state["units"] = value(e[3])
                continue
            if e[0] == "mcall" and e[1][0] == "field" and e[1][2] == "units":
                if state["units"] is None:
                    raise Untranslatable(f"{where}: `units.{e[2]}` before `units` is assigned")
                if e[2] == "insert" and len(e[3]) == 2 and e[3][0] == ("lit", "int", "0") \
                        and strip_ref(e[3][1]) == ("path", ["ref_unit_def"]) and has_ref:
                    state["units"] = f"({REF} :: {state['units']})"
                    continue
                if e[2] == "push" and len(e[3]) == 1 and strip_ref(e[3][0]) == ("path", ["ref_unit_def"]) and has_ref:
                    state["units"] = f"({state['units']} ++ [{REF}])"
                    continue
                if e[2] == "sort_by" and len(e[3]) == 1:
                    state["units"] = f"(isort {comparator(where, e[3][0])} {state['units']})"
                    continue
                if e[2] == "reverse" and not e[3]:
                    state["units"] = f"(List.reverse {state['units']})"
                    continue
                raise Untranslatable(f"{where}: `units.{e[2]}(..)` is outside the subset")
            if mentions_units(e):
                raise Untranslatable(f"{where}: use of `units` not understood")
        return None

    run(block[1], block[2])
    if state["units"] is None:
        raise Untranslatable(f"{where}: `units` never assigned ({'with' if has_ref else 'without'} reference unit)")
    return state["units"], state["parser"]


def translate_analyze(mt, where):
    fns = functions_in(mt, 0, len(mt)).get("analyze")
    if not fns or len(fns) != 1:
        raise Untranslatable(f"{where}: fn analyze not found")
    try:
        block = parse_block(fns[0][2])
    except ParseError as e:
        raise Untranslatable(f"{where}: analyze: {e}")
    out = []
    for has_ref, lean, params in ((True, "Analyze.withRef", "(ref : UnitDef) (units : List UnitDef)"),
                                  (False, "Analyze.noRef", "(units : List UnitDef)")):
        try:
            expr, parser = analyze_path(f"{where}: analyze", block, has_ref)
            want = "unit_defs_with_scale_from_attrs" if has_ref else "unit_defs_without_scale_from_attrs"
            if parser != want:
                raise Untranslatable(f"{where}: analyze: units parsed by `{parser}` {'with' if has_ref else 'without'} reference unit")
            out.append(f"def {lean} {params} : List UnitDef :=\n  {expr}")
        except Untranslatable as e:
            FAILURES.append(str(e))
            msg = str(e).replace('"', "'")
            out.append(f"/-- NOT TRANSLATED: {msg} -/\ndef {lean} {params} : List UnitDef :=\n  untranslatable \"{msg}\"")
        out.append("")
    return out


# ------------------------------------------------------------------ the `for unit in units` loops of the code generator

UNIT_FIELDS = {"unit_ident": ("unit.ident", "text"), "name": ("unit.name", "text"), "symbol": ("unit.symbol", "text"),
               "si_prefix": ("unit.pfx", "opt"), "scale": ("unit.scale", "opt"), "doc": ("unit.doc", "opt")}
PASS_THROUGH = {"clone", "as_ref", "value", "as_str", "to_string", "to_owned", "unwrap"}


def cg_term(where, e, env):
    """symbolic value of an expression over the loop variable `unit` -> (Lean term, 'text' | 'opt')"""
    e = strip_ref(e)
    k = e[0]
    if k == "path" and len(e[1]) == 1 and e[1][0] in env:
        return env[e[1][0]]
    if k == "field" and strip_ref(e[1]) == ("path", ["unit"]) and e[2] in UNIT_FIELDS:
        return UNIT_FIELDS[e[2]]
    if k == "mcall":
        _, recv, name, args = e
        t, ty = cg_term(where, recv, env)
        if name in PASS_THROUGH and not args:
            return t, ty
        if name == "to_case" and len(args) == 1 and args[0][0] == "path" and args[0][1][0] == "Case" and ty == "text":
            conv = {"UpperSnake": "Case.upperSnake", "UpperCamel": "Case.upperCamel"}.get(args[0][1][-1])
            if conv:
                return f"({conv} {t})", "text"
        raise Untranslatable(f"{where}: `.{name}(..)` in the code generator")
    if k == "call" and e[1][0] == "path" and e[1][1][-2:] == ["Ident", "new"] and len(e[2]) == 2:
        return cg_term(where, e[2][0], env)
    raise Untranslatable(f"{where}: expression form `{k}` in the code generator")


def strip_doc_attr(toks):
    """drop `#[doc = #x]` from an arm"""
    out = []
    i = 0
    while i < len(toks):
        if is_p(toks[i], "#") and i + 1 < len(toks) and is_p(toks[i + 1], "["):
            c = matching(toks, i + 1)
            inner = [t.text for t in toks[i + 2:c]]
            if inner[:2] == ["doc", "="]:
                i = c + 1
                continue
        out.append(toks[i])
        i += 1
    return out


def arm_of(where, qtoks, env):
    """tokens of `quote!(#code ARM)` -> semantic row"""
    ts = [t.text for t in strip_doc_attr(qtoks)]
    if ts[:2] != ["#", "code"]:
        raise Untranslatable(f"{where}: quote! in the loop does not start with #code")
    ts = ts[2:]

    def var(name):
        if name not in env:
            raise Untranslatable(f"{where}: interpolation #{name} is not bound in the loop")
        return env[name][0]

    def match(pattern):
        """pattern items: literal token text, or ('v', key) for `# name`"""
        got = {}
        i = 0
        for it in pattern:
            if isinstance(it, tuple):
                if i + 1 >= len(ts) or ts[i] != "#":
                    return None
                name = ts[i + 1]
                if it[1] in got and got[it[1]] != name:
                    return None
                got[it[1]] = name
                i += 2
            else:
                if i >= len(ts) or ts[i] != it:
                    return None
                i += 1
        return got if i == len(ts) else None

    V = lambda k_: ("v", k_)  # noqa: E731
    g = match([V("a"), ","])
    if g:
        return ("variant", var(g["a"]))
    g = match(["Self", ":", ":", V("a"), ","])
    if g:
        return ("elem", var(g["a"]))
    g = match(["Self", ":", ":", V("a"), "=", ">", V("b"), ".", "to_owned", "(", ")", ","])
    if g:
        return ("arm", var(g["a"]), var(g["b"]))
    g = match(["Self", ":", ":", V("a"), "=", ">", "Some", "(", "SIPrefix", ":", ":", V("b"), ")", ","])
    if g:
        return ("arm", var(g["a"]), var(g["b"]))
    g = match(["Self", ":", ":", V("a"), "=", ">", "Amnt", "!", "(", V("b"), ")", ","])
    if g:
        return ("arm", var(g["a"]), var(g["b"]))
    g = match(["pub", "const", V("c"), ":", V("e"), "=", V("e"), ":", ":", V("a"), ";"])
    if g:
        return ("const", var(g["c"]), var(g["a"]))
    raise Untranslatable(f"{where}: arm `{' '.join(ts)}` is not one of the known shapes")


def loop_rows(where, stmts, tail, env, cond):
    """body of the loop -> (filter condition or None, row); every path must yield the same row"""
    env = dict(env)
    rows = []
    items = list(stmts) + ([("expr", tail, False)] if tail is not None else [])
    for st in items:
        if st[0] == "let":
            if st[1][0] != "pid" or st[3] is None:
                raise Untranslatable(f"{where}: let pattern in the loop")
            env[st[1][1]] = cg_term(where, st[3], env)
            continue
        e = st[1]
        if e[0] == "assign" and e[1] == "=" and e[2] == ("path", ["code"]) and e[3][0] == "macro" and e[3][1] == "quote":
            rows.append((cond, arm_of(where, e[3][2], env)))
            continue
        if e[0] == "if" and e[1][0] != "let":
            c = strip_ref(e[1])
            if c[0] == "mcall" and c[2] == "is_some" and not c[3]:
                t, ty = cg_term(where, c[1], env)
                if ty != "opt" or cond is not None:
                    raise Untranslatable(f"{where}: condition in the loop")
                rows += loop_rows(where, e[2][1], e[2][2], env, f"{t}.isSome")
                if e[3] is not None:
                    eb = e[3]
                    ok = eb[0] == "block" and len(eb[1]) + (eb[2] is not None) == 1 and \
                        (eb[2] or eb[1][0][1])[0] == "macro" and (eb[2] or eb[1][0][1])[1].startswith("abort")
                    if not ok:
                        raise Untranslatable(f"{where}: else branch in the loop is not an abort")
                continue
            raise Untranslatable(f"{where}: condition in the loop")
        if e[0] == "match":
            sc = strip_ref(e[1])
            if sc[0] == "field" and sc[2] == "doc":
                for pat, guard, body in e[2]:
                    benv = dict(env)
                    if pat[0] == "pts" and pat[1] == ["Some"] and pat[2] and pat[2][0][0] == "pid":
                        benv[pat[2][0][1]] = ("unit.doc", "opt")
                    if body[0] != "block":
                        body = ("block", [], body)
                    rows += loop_rows(where, body[1], body[2], benv, cond)
                continue
        raise Untranslatable(f"{where}: statement form `{e[0]}` in the loop")
    return rows


def translate_codegen_loop(mt, where, fn_name, lean_name, kind):
    fns = functions_in(mt, 0, len(mt)).get(fn_name)
    if not fns or len(fns) != 1:
        raise Untranslatable(f"{where}: fn {fn_name} not found")
    try:
        block = parse_block(fns[0][2])
    except ParseError as e:
        raise Untranslatable(f"{where}: {fn_name}: {e}")
    w = f"{where}: {fn_name}"
    loops = [st[1] for st in block[1] if st[0] == "expr" and st[1][0] == "for"]
    if len(loops) != 1:
        raise Untranslatable(f"{w}: expected exactly one `for` loop")
    lp = loops[0]
    if lp[1] != ("pid", "unit") or strip_ref(lp[2]) != ("path", ["units"]):
        raise Untranslatable(f"{w}: the loop is not `for unit in units`")
    rows = loop_rows(w, lp[3][1], lp[3][2], {}, None)
    distinct = []
    for r in rows:
        if r not in distinct:
            distinct.append(r)
    if len(distinct) != 1:
        raise Untranslatable(f"{w}: the paths through the loop body generate different code: {distinct}")
    cond, row = distinct[0]
    if row[0] != kind:
        raise Untranslatable(f"{w}: generates `{row[0]}` rows, expected `{kind}`")
    src = f"(units.filter (fun unit => {cond}))" if cond else "units"
    if kind in ("variant", "elem"):
        return f"def {lean_name} (units : List UnitDef) : List Text :=\n  {src}.map (fun unit => {row[1]})"
    ty2 = {"Codegen.fn_si_prefix": "Option Text", "Codegen.fn_scale": "Option Lit"}.get(lean_name, "Text")
    return f"def {lean_name} (units : List UnitDef) : List (Text × {ty2}) :=\n  {src}.map (fun unit => ({row[1]}, {row[2]}))"


CODEGEN_LOOPS = [("codegen_unit_variants", "Codegen.variants", "variant", "List Text"),
                 ("codegen_unit_variants_array", "Codegen.variants_array", "elem", "List Text"),
                 ("codegen_fn_name", "Codegen.fn_name", "arm", "List (Text × Text)"),
                 ("codegen_fn_symbol", "Codegen.fn_symbol", "arm", "List (Text × Text)"),
                 ("codegen_fn_si_prefix", "Codegen.fn_si_prefix", "arm", "List (Text × Option Text)"),
                 ("codegen_fn_scale", "Codegen.fn_scale", "arm", "List (Text × Option Lit)"),
                 ("codegen_unit_constants", "Codegen.constants", "const", "List (Text × Text)")]


def translate_codegen(mt, where):
    out = []
    for fn_name, lean, kind, ty in CODEGEN_LOOPS:
        try:
            out.append(translate_codegen_loop(mt, where, fn_name, lean, kind))
        except Untranslatable as e:
            FAILURES.append(str(e))
            msg = str(e).replace('"', "'")
            out.append(f"/-- NOT TRANSLATED: {msg} -/\ndef {lean} (units : List UnitDef) : {ty} :=\n  untranslatable \"{msg}\"")
        out.append("")
    return out


# ------------------------------------------------------------------ locating the functions

def find_block(toks, start_words):
    """index of the `{` that opens the item whose header starts with the given words"""
    n = len(start_words)
    for i in range(len(toks) - n):
        if all(toks[i + k].text == w for k, w in enumerate(start_words)):
            j = i + n
            while j < len(toks) and not is_p(toks[j], "{") and not is_p(toks[j], ";"):
                j += 1
            if j < len(toks) and is_p(toks[j], "{"):
                return j
    return -1


def functions_in(toks, lo, hi):
    """name -> (param tokens, return type text, body tokens incl. braces) for `fn`s directly in toks[lo:hi]"""
    out = {}
    i = lo
    while i < hi - 1:
        if toks[i].kind == "ident" and toks[i].text == "fn" and toks[i + 1].kind == "ident":
            name = toks[i + 1].text
            j = i + 2
            while not is_p(toks[j], "("):
                j += 1
            pc = matching(toks, j)
            k = pc + 1
            while not (is_p(toks[k], "{") or is_p(toks[k], ";")):
                k += 1
            ret = " ".join(t.text for t in toks[pc + 1:k])
            if is_p(toks[k], "{"):
                c = matching(toks, k)
                out.setdefault(name, []).append((toks[j + 1:pc], ret, toks[k:c + 1]))
                i = c
        i += 1
    return out


LEAN_TY = {("amt",): "A", ("bool",): "Bool", ("ordering",): "Ordering", ("str",): "Text"}


def lean_ty(ty, tv):
    if ty in LEAN_TY:
        return LEAN_TY[ty]
    if ty[0] == "unit":
        return tv[ty[1]]
    if ty[0] == "qty":
        return f"Q A {tv[ty[1]]}"
    if ty[0] == "rate":
        return "Rate A"
    if ty[0] == "convtable":
        return "List (ConvRow A)"
    if ty[0] == "opt":
        return f"Option ({lean_ty(ty[1], tv)})"
    if ty[0] == "list":
        return f"List ({lean_ty(ty[1], tv)})"
    raise AssertionError(ty)


def param_type(cx, name, text, self_ty):
    t = text.replace(" ", "").lstrip("&")
    if t.startswith("'a"):
        t = t[2:]
    if t == "Self":
        return self_ty
    if t == "AmountT":
        return AMT
    if t == "str":
        return ("str",)
    if t in ("Self::UnitType",):
        return ("unit", cx.tables["Self"])
    if t in cx.tables:
        return ("qty", cx.tables[t])
    if t.endswith("::UnitType") and t[:-10] in cx.tables:
        return ("unit", cx.tables[t[:-10]])
    if t.startswith("Rate<") and t.endswith(">"):
        a, _, b = t[5:-1].partition(",")
        if a in cx.tables and b in cx.tables:
            return ("rate", cx.tables[a], cx.tables[b])
    cx.fail(f"parameter `{name}: {text}`")


# signature the tie theorems expect: (parameters, result type, monadic, type of the value)
QT_T = ("qty", "T")
EXPECTED = {
    ("LinearScaledUnit", "ratio"): ("(self : U) (other : U)", "Res A", True, AMT),
    ("LinearScaledUnit", "from_scale"): ("(amnt : A)", "Option U", False, ("opt", ("unit", "T"))),
    ("LinearScaledUnit", "is_ref_unit"): ("(self : U)", "Bool", False, BOOL),
    ("Quantity", "eq"): ("(self : Q A U) (other : Q A U)", "Bool", False, BOOL),
    ("Quantity", "partial_cmp"): ("(self : Q A U) (other : Q A U)", "Option Ordering", False, ORD),
    ("Quantity", "add"): ("(self : Q A U) (rhs : Q A U)", "Res (Q A U)", True, QT_T),
    ("Quantity", "sub"): ("(self : Q A U) (rhs : Q A U)", "Res (Q A U)", True, QT_T),
    ("Quantity", "div"): ("(self : Q A U) (rhs : Q A U)", "Res A", True, AMT),
    ("HasRefUnit", "unit_from_scale"): ("(amnt : A)", "Option U", False, ("opt", ("unit", "T"))),
    ("HasRefUnit", "equiv_amount"): ("(self : Q A U) (unit_ : U)", "Res A", True, AMT),
    ("HasRefUnit", "convert"): ("(self : Q A U) (to_unit : U)", "Res (Q A U)", True, QT_T),
    ("HasRefUnit", "eq"): ("(self : Q A U) (other : Q A U)", "Res Bool", True, BOOL),
    ("HasRefUnit", "partial_cmp"): ("(self : Q A U) (other : Q A U)", "Res (Option Ordering)", True, ORD),
    ("HasRefUnit", "add"): ("(self : Q A U) (rhs : Q A U)", "Res (Q A U)", True, QT_T),
    ("HasRefUnit", "sub"): ("(self : Q A U) (rhs : Q A U)", "Res (Q A U)", True, QT_T),
    ("HasRefUnit", "div"): ("(self : Q A U) (rhs : Q A U)", "Res A", True, AMT),
    ("HasRefUnit", "_fit"): ("(amount : A)", "Res (Q A U)", True, QT_T),
    ("codegen_impl_qty_sqared", "mul"): ("(self : Q A U) (rhs : Q A U)", "Res (Q A W)", True, ("qty", "TO")),
    ("codegen_impl_qty_mul_qty", "mul"): ("(self : Q A U) (rhs : Q A V)", "Res (Q A W)", True, ("qty", "TO")),
    ("codegen_impl_div_qties", "div"): ("(self : Q A U) (rhs : Q A V)", "Res (Q A W)", True, ("qty", "TO")),
}
RATE_TT = ("rate", "TT", "TP")
EXPECTED.update({
    ("Unit", "as_qty"): ("(self : U)", "Q A U", False, QT_T),
    ("Unit", "from_symbol"): ("(symbol : Text)", "Option U", False, ("opt", ("unit", "S"))),
    ("Quantity", "unit_from_symbol"): ("(symbol : Text)", "Option U", False, ("opt", ("unit", "S"))),
    ("Scalar", "amnt_mul_qty"): ("(self : A) (rhs : Q A U)", "Res (Q A U)", True, QT_T),
    ("Scalar", "qty_mul_amnt"): ("(self : Q A U) (rhs : A)", "Res (Q A U)", True, QT_T),
    ("Scalar", "qty_div_amnt"): ("(self : Q A U) (rhs : A)", "Res (Q A U)", True, QT_T),
    ("Rate", "new"): ("(term_amount : A) (term_unit : Nat) (per_unit_multiple : A) (per_unit : Nat)", "Rate A", False, RATE_TT),
    ("Rate", "from_qty_vals"): ("(term : Q A Nat) (per : Q A Nat)", "Rate A", False, RATE_TT),
    ("Rate", "term_amount"): ("(self : Rate A)", "A", False, AMT),
    ("Rate", "term_unit"): ("(self : Rate A)", "Nat", False, ("unit", "TT")),
    ("Rate", "per_unit_multiple"): ("(self : Rate A)", "A", False, AMT),
    ("Rate", "per_unit"): ("(self : Rate A)", "Nat", False, ("unit", "TP")),
    ("Rate", "reciprocal"): ("(self : Rate A)", "Rate A", False, ("rate", "TP", "TT")),
    ("Rate", "mul"): ("(self : Rate A) (rhs : Q A Nat)", "Res (Q A Nat)", True, ("qty", "TT")),
    ("Template", "qty_mul_rate"): ("(self : Q A Nat) (rhs : Rate A)", "Res (Q A Nat)", True, ("qty", "TT")),
    ("Template", "qty_div_rate"): ("(self : Q A Nat) (rhs : Rate A)", "Res (Q A Nat)", True, ("qty", "TP")),
    ("ConversionTable", "convert"): ("(rows : List (ConvRow A)) (qty : Q A Nat) (to_unit : Nat)", "Res (Option (Q A Nat))", True,
                                     ("opt", ("qty", "T"))),
})
for _k in ("eq", "partial_cmp", "add", "sub", "div"):
    for _kind, _tr in (("withRef", "HasRefUnit"), ("noRef", "Quantity")):
        EXPECTED[(f"Kind.{_kind}", _k)] = EXPECTED[(_tr, _k)]
for _k in ("add", "sub", "div"):
    EXPECTED[("Kind.single", _k)] = EXPECTED[("HasRefUnit", _k)]
FAILURES = []


def translate_fn(sigs, where, trait, name, fn, tables, self_ty, tv, lean_name=None, with_tables=True, qdiv=False):
    lean = lean_name or f"{trait}.{name}"
    order = ["T", "TL", "TR", "TO", "TT", "TP", "S"]
    tabs = " ".join((f"({t} : SymTable {tv[t]})" if t == "S" else f"({t} : QT A {tv[t]})")
                    for t in sorted(set(tables.values()), key=order.index)) if with_tables else ""
    extra = "(qdiv : Q A Nat → Q A Nat → Res A) " if qdiv else ""
    try:
        return translate_fn_inner(sigs, where, trait, name, fn, tables, self_ty, tv, lean, tabs, extra, with_tables, qdiv)
    except Untranslatable as e:
        exp = EXPECTED.get((trait, name))
        if exp is None:
            raise
        # keep the rest of the file usable: this definition becomes a placeholder that no tie
        # theorem can be proved about, and the reason is kept for the report
        FAILURES.append(str(e))
        params, rty, monadic, ty = exp
        sigs[(trait, name)] = dict(monadic=monadic, ret=ty, lean=lean, tabs=with_tables)
        msg = str(e).replace("\\", "/").replace('"', "'")
        return (f"/-- NOT TRANSLATED: {msg} -/\n"
                f"def {lean} (R : Arith A) {tabs} {extra}{params} : {rty} :=\n  untranslatable \"{msg}\"")


def translate_fn_inner(sigs, where, trait, name, fn, tables, self_ty, tv, lean, tabs, extra, with_tables, qdiv):
    ptoks, _ret, btoks = fn
    cx = Ctx(f"{where}: {trait}::{name}", sigs, tables, self_ty)
    if qdiv:
        cx.qdiv = "qdiv"
    try:
        params = parse_params(ptoks)
        body = parse_block(btoks)
    except ParseError as e:
        raise Untranslatable(f"{where}: {trait}::{name}: {e}")
    plist = []
    for pn, pt in params:
        ty = param_type(cx, pn, pt, self_ty)
        cx.env[pn] = (lname(pn), ty)
        plist.append(f"({lname(pn)} : {lean_ty(ty, tv)})")
    m, ty = mon(cx, body)
    if ty is None:
        cx.fail("no value")
    pure_fn = is_pure(m)
    head = f"def {lean} (R : Arith A) {tabs} {extra}{' '.join(plist)} : "
    if pure_fn:
        text = head + f"{lean_ty(ty, tv)} :=\n" + emit_pure(m, 1)
    else:
        text = head + f"Res ({lean_ty(ty, tv)}) :=\n" + emit(m, 1)
    sigs[(trait, name)] = dict(monadic=not pure_fn, ret=ty, lean=lean, tabs=with_tables)
    return text


HEADER = """-- GENERATED by tools/translate_algos.py from src/lib.rs and qty-macros/src/quantity_attr_helper.rs; do not edit.
import QtyModel.Ops
import QtyModel.Rate
/-
  The trait algorithms and operator templates, re-emitted from the Rust source: explicit
  `bind`/`pure` in the result monad, operands evaluated left to right.
-/
namespace Qty.Gen.Algos
open Qty
set_option linter.unusedVariables false
variable {A U V W : Type} [DecidableEq U] [DecidableEq V] [DecidableEq W]

/-- what the symbol lookups use of a unit type: `iter()` and `symbol()` -/
structure SymTable (U : Type) where
  units : List U
  symbol : U → Text

/-- `Ord::cmp` of two strings (byte order of UTF-8 = order of the code points) -/
def textCmp : Text → Text → Ordering
  | [], [] => .eq
  | [], _ :: _ => .lt
  | _ :: _, [] => .gt
  | a :: as, b :: bs => if a < b then .lt else if a > b then .gt else textCmp as bs

/-- `Option<Ordering>::unwrap()` inside a sort comparator (the keys of numeric literals are never NaN) -/
def unwrapOrd : Option Ordering → Ordering
  | some o => o
  | none => .lt

/-- placeholder for a body the translator could not read (nothing can be proved about it) -/
def untranslatable {α : Type} [Inhabited α] (reason : String) : α := default

"""


def trait_fns(toks, trait):
    j = find_block(toks, ["trait", trait])
    if j < 0:
        raise Untranslatable(f"src/lib.rs: trait {trait} not found")
    return functions_in(toks, j + 1, matching(toks, j))


def quote_fns(toks, fn_name, where):
    """functions inside the quote!( ) of a codegen function, in order of appearance"""
    fns = functions_in(toks, 0, len(toks)).get(fn_name)
    if not fns:
        raise Untranslatable(f"{where}: fn {fn_name} not found")
    body = fns[0][2]
    for i in range(len(body) - 2):
        if body[i].text == "quote" and is_p(body[i + 1], "!"):
            c = matching(body, i + 2)
            return body[i + 3:c]
    raise Untranslatable(f"{where}: fn {fn_name} has no quote!")


def impl_headers(qt):
    """[(header text, fn dict)] for every `impl ... { }` in a quote body"""
    out = []
    i = 0
    while i < len(qt):
        if qt[i].kind == "ident" and qt[i].text == "impl":
            j = i
            while not is_p(qt[j], "{"):
                j += 1
            c = matching(qt, j)
            out.append((" ".join(t.text for t in qt[i:j]), functions_in(qt, j + 1, c)))
            i = c
        i += 1
    return out


def forwarding_ok(fn, op):
    """body is `Mul::mul(<self or *self>, <rhs or *rhs>)`"""
    try:
        b = parse_block(fn[2])
    except ParseError:
        return False
    if b[1] or b[2] is None or b[2][0] != "call":
        return False
    f, args = b[2][1], b[2][2]
    if f != ("path", [op.capitalize(), op]) or len(args) != 2:
        return False
    return strip_ref(args[0]) == ("path", ["self"]) and strip_ref(args[1]) == ("path", ["rhs"])


def run(repo):
    """-> text of Generated/Algos.lean; FAILURES lists the bodies that were not translated.
    The file is built section by section; a section whose items are not found (or whose shape
    check fails) is skipped and only the tie theorems about ITS definitions stop compiling."""
    sigs = {}
    del FAILURES[:]
    out = [HEADER]
    lib = tokenize(open(os.path.join(repo, "src/lib.rs"), encoding="utf-8").read())
    tvT = {"T": "U"}
    lsu = trait_fns(lib, "LinearScaledUnit")
    qf = trait_fns(lib, "Quantity")
    hru = trait_fns(lib, "HasRefUnit")
    uf = trait_fns(lib, "Unit")
    mp = os.path.join(repo, "qty-macros/src/quantity_attr_helper.rs")
    mt = tokenize(open(mp, encoding="utf-8").read())
    where = "qty-macros/src/quantity_attr_helper.rs"
    tv3 = {"TL": "U", "TR": "V", "TO": "W"}

    def section(fn, on_fail=None):
        mark = len(out)
        try:
            fn()
        except (Untranslatable, ParseError, IndexError, KeyError) as e:
            del out[mark:]
            msg = f"{type(e).__name__}: {e}".replace("\\", "/").replace('"', "'")
            FAILURES.append(msg)
            out.append(f"/- NOT TRANSLATED (section skipped): {msg} -/")
            if on_fail:
                out.extend(on_fail(msg))
            out.append("")

    def one(fns, trait, name, self_ty, tables=None):
        def go():
            if name not in fns or len(fns[name]) != 1:
                raise Untranslatable(f"src/lib.rs: {trait}::{name} not found (or defined twice)")
            out.append(translate_fn(sigs, "src/lib.rs", trait, name, fns[name][0], tables or {"Self": "T"}, self_ty, tvT))
            out.append("")
        section(go)

    for n in ("ratio", "from_scale", "is_ref_unit"):
        one(lsu, "LinearScaledUnit", n, ("unit", "T"))
    for n in ("eq", "partial_cmp", "add", "sub", "div"):
        one(qf, "Quantity", n, ("qty", "T"))
    for n in ("unit_from_scale", "equiv_amount", "convert", "eq", "partial_cmp", "add", "sub", "div", "_fit"):
        one(hru, "HasRefUnit", n, ("qty", "T"))

    # `impl HasRefUnit for AmountT`: `_fit` is the identity
    def amount_impl():
        j = find_block(lib, ["impl", "HasRefUnit", "for", "AmountT"])
        if j < 0:
            raise Untranslatable("src/lib.rs: impl HasRefUnit for AmountT not found")
        fns = functions_in(lib, j + 1, matching(lib, j))
        if set(fns) != {"_fit"}:
            raise Untranslatable(f"src/lib.rs: impl HasRefUnit for AmountT overrides {sorted(fns)}, expected only _fit")
        try:
            b = parse_block(fns["_fit"][0][2])
            ps = parse_params(fns["_fit"][0][0])
        except ParseError as e:
            raise Untranslatable(f"src/lib.rs: AmountT::_fit: {e}")
        if b != ("block", [], ("path", [ps[0][0]])) or len(ps) != 1:
            raise Untranslatable("src/lib.rs: `impl HasRefUnit for AmountT`: `_fit` is not the identity")
        out.append("/-- `impl HasRefUnit for AmountT { fn _fit(amount) -> Self { amount } }` was checked to be the identity -/")
        out.append("def amountFitIsIdentity : Bool := true")
        out.append("")
        out.append("/-- `<Out as HasRefUnit>::_fit`: the default method, or the identity override of `AmountT` -/")
        out.append("def fitOf (R : Arith A) (T : QT A U) (x : A) : Res (Q A U) :=")
        out.append("  match T.fitIdentity with")
        out.append("  | some mk => pure (mk x T.ref)")
        out.append("  | none => HasRefUnit._fit R T x")
        out.append("")

    section(amount_impl, lambda msg: [
        "def amountFitIsIdentity : Bool := false",
        "def fitOf (R : Arith A) (T : QT A U) (x : A) : Res (Q A U) :=",
        f'  untranslatable "{msg}"'])

    # operator templates of the macro
    def template(fn_name, op, lean_name, rhs_same):
        def go():
            impls = impl_headers(quote_fns(mt, fn_name, where))
            if len(impls) != 4:
                raise Untranslatable(f"{where}: {fn_name} generates {len(impls)} impls, expected 4 (owned/borrowed forms)")
            main = impls[0][1].get(op)
            if not main or len(main) != 1:
                raise Untranslatable(f"{where}: {fn_name}: first impl has no fn {op}")
            for hd, fns_ in impls[1:]:
                f = fns_.get(op)
                if not f or not forwarding_ok(f[0], op):
                    raise Untranslatable(f"{where}: {fn_name}: `{hd}` does not forward to the owned operator")
            tables = {"Self": "TL", "Self::Output": "TO", "#lhs_qty_ident": "TL", "#qty_ident": "TL",
                      "#rhs_qty_ident": "TL" if rhs_same else "TR"}
            tv = {"TL": "U", "TO": "W"} if rhs_same else tv3
            out.append(translate_fn(sigs, where, fn_name, op, main[0], tables, ("qty", "TL"), tv, lean_name=lean_name))
            out.append("")
        section(go)

    template("codegen_impl_qty_sqared", "mul", "Template.sqared_mul", True)
    template("codegen_impl_qty_mul_qty", "mul", "Template.mul", False)
    template("codegen_impl_div_qties", "div", "Template.div", False)

    # ---------------- `Unit::as_qty`
    def as_qty():
        if "as_qty" not in uf or len(uf["as_qty"]) != 1:
            raise Untranslatable("src/lib.rs: Unit::as_qty not found")
        out.append(translate_fn(sigs, "src/lib.rs", "Unit", "as_qty", uf["as_qty"][0],
                                {"Self": "T", "Self::QuantityType": "T"}, ("unit", "T"), tvT, with_tables=False))
        out.append("")
    section(as_qty)

    # ---------------- symbol lookups
    tvS = {"S": "U"}

    def from_symbol():
        if "from_symbol" not in uf or len(uf["from_symbol"]) != 1:
            raise Untranslatable("src/lib.rs: Unit::from_symbol not found")
        out.append(translate_fn(sigs, "src/lib.rs", "Unit", "from_symbol", uf["from_symbol"][0],
                                {"Self": "S"}, ("unit", "S"), tvS))
        out.append("")
    section(from_symbol)

    def unit_from_symbol():
        if "unit_from_symbol" not in qf or len(qf["unit_from_symbol"]) != 1:
            raise Untranslatable("src/lib.rs: Quantity::unit_from_symbol not found")
        out.append(translate_fn(sigs, "src/lib.rs", "Quantity", "unit_from_symbol", qf["unit_from_symbol"][0],
                                {"Self": "S"}, ("qty", "S"), tvS))
        out.append("")
    section(unit_from_symbol)

    # ---------------- which trait method each operator of a quantity type forwards to
    def by_header(impls, words, fn, what):
        for hd, fns_ in impls:
            if hd.split() == words.split():
                f = fns_.get(fn)
                if f and len(f) == 1:
                    return f[0]
        raise Untranslatable(f"{where}: {what}: `{words}` with fn {fn} not found")

    kinds = {"withRef": "codegen_qty_with_ref_unit", "noRef": "codegen_qty_without_ref_unit", "single": "codegen_qty_single_unit"}
    ops = [("eq", "impl PartialEq < Self > for # qty_ident"), ("partial_cmp", "impl PartialOrd for # qty_ident"),
           ("add", "impl Add < Self > for # qty_ident"), ("sub", "impl Sub < Self > for # qty_ident"),
           ("div", "impl Div < Self > for # qty_ident")]
    for kind, fn_name in kinds.items():
        for op, hd in ops:
            def go(kind=kind, fn_name=fn_name, op=op, hd=hd):
                impls = impl_headers(quote_fns(mt, fn_name, where))
                if kind == "single" and op in ("eq", "partial_cmp"):
                    if any(h.split() == hd.split() for h, _ in impls):
                        raise Untranslatable(f"{where}: {fn_name}: single-unit types now implement `{hd}`")
                    return
                out.append(translate_fn(sigs, where, f"Kind.{kind}", op, by_header(impls, hd, op, fn_name),
                                        {"Self": "T", "Self::Output": "T"}, ("qty", "T"), tvT))
                out.append("")
            section(go)

    # ---------------- scalar operators and rate operators of `codegen_impl_std_traits`
    std = []

    def std_impls():
        std.extend(impl_headers(quote_fns(mt, "codegen_impl_std_traits", where)))
    section(std_impls)
    tabs1 = {"Self": "T", "Self::Output": "T", "#qty_ident": "T"}

    def scalar(lean_fn, hd, op, self_ty):
        def go():
            out.append(translate_fn(sigs, where, "Scalar", lean_fn, by_header(std, hd, op, "codegen_impl_std_traits"),
                                    tabs1, self_ty, tvT))
            out.append("")
        section(go)

    scalar("amnt_mul_qty", "impl Mul < # qty_ident > for AmountT", "mul", AMT)
    scalar("qty_mul_amnt", "impl Mul < AmountT > for # qty_ident", "mul", ("qty", "T"))
    scalar("qty_div_amnt", "impl Div < AmountT > for # qty_ident", "div", ("qty", "T"))

    # ---------------- src/rate.rs
    rt = tokenize(open(os.path.join(repo, "src/rate.rs"), encoding="utf-8").read())
    tvR = {"TT": "Nat", "TP": "Nat"}
    rtabs = {"TQ": "TT", "PQ": "TP", "Self::Output": "TT"}
    rf = {}

    def rate_impl():
        j = find_block(rt, ["impl", "<", "TQ", ":", "Quantity", ",", "PQ", ":", "Quantity", ">", "Rate"])
        if j < 0:
            raise Untranslatable("src/rate.rs: `impl<TQ: Quantity, PQ: Quantity> Rate<TQ, PQ>` not found")
        rf.update(functions_in(rt, j + 1, matching(rt, j)))
    section(rate_impl)
    for n in ("new", "term_amount", "term_unit", "per_unit_multiple", "per_unit", "from_qty_vals", "reciprocal"):
        def go(n=n):
            if n not in rf or len(rf[n]) != 1:
                raise Untranslatable(f"src/rate.rs: Rate::{n} not found")
            out.append(translate_fn(sigs, "src/rate.rs", "Rate", n, rf[n][0], rtabs, RATE_TT, tvR, with_tables=False))
            out.append("")
        section(go)

    def rate_mul():
        j = find_block(rt, ["impl", "<", "TQ", ":", "Quantity", ",", "PQ", ":", "Quantity", ">", "Mul", "<", "PQ", ">", "for", "Rate"])
        if j < 0:
            raise Untranslatable("src/rate.rs: `impl Mul<PQ> for Rate<TQ, PQ>` not found")
        mf = functions_in(rt, j + 1, matching(rt, j))
        if "mul" not in mf or len(mf["mul"]) != 1:
            raise Untranslatable("src/rate.rs: Rate * PQ: fn mul not found")
        out.append(translate_fn(sigs, "src/rate.rs", "Rate", "mul", mf["mul"][0], rtabs, RATE_TT, tvR, with_tables=False, qdiv=True))
        out.append("")
    section(rate_mul)

    def qty_mul_rate():
        out.append(translate_fn(sigs, where, "Template", "qty_mul_rate",
                                by_header(std, "impl < TQ : Quantity > Mul < Rate < TQ , Self > > for # qty_ident", "mul",
                                          "codegen_impl_std_traits"),
                                {"Self": "TP", "TQ": "TT", "Self::Output": "TT"}, ("qty", "TP"), tvR, with_tables=False, qdiv=True))
        out.append("")
    section(qty_mul_rate)

    def qty_div_rate():
        out.append(translate_fn(sigs, where, "Template", "qty_div_rate",
                                by_header(std, "impl < PQ : Quantity > Div < Rate < Self , PQ > > for # qty_ident", "div",
                                          "codegen_impl_std_traits"),
                                {"Self": "TT", "PQ": "TP", "Self::Output": "TP"}, ("qty", "TT"), tvR, with_tables=False, qdiv=True))
        out.append("")
    section(qty_div_rate)

    # ---------------- src/converter.rs
    def converter():
        ct = tokenize(open(os.path.join(repo, "src/converter.rs"), encoding="utf-8").read())
        j = find_block(ct, ["impl", "<", "Q", ":", "Quantity", ",", "const", "N", ":", "usize", ">", "Converter"])
        if j < 0:
            raise Untranslatable("src/converter.rs: `impl Converter<Q> for ConversionTable<Q, N>` not found")
        cf = functions_in(ct, j + 1, matching(ct, j))
        if "convert" not in cf or len(cf["convert"]) != 1:
            raise Untranslatable("src/converter.rs: fn convert not found")
        out.append(translate_fn(sigs, "src/converter.rs", "ConversionTable", "convert", cf["convert"][0],
                                {"Q": "T"}, ("convtable", "T"), {"T": "Nat"}, with_tables=False))
        out.append("")
    section(converter)

    # ---------------- ordering of the units in `analyze`, code generator loops
    out.append("section")
    out.append("open MacroFront")

    def analyze():
        out.extend(translate_analyze(mt, where))
    section(analyze)

    def codegen():
        out.extend(translate_codegen(mt, where))
    section(codegen)
    out.append("end")
    out.append("")
    out.append("end Qty.Gen.Algos")
    return "\n".join(out) + "\n"


def stub(reason):
    """file content when not even the items were found: nothing that imports it compiles"""
    msg = reason.replace('"', "'")
    return (HEADER + f'/-- NOT TRANSLATED: {msg} -/\n'
            f'example : "untranslatable: {msg}" = "" := by decide\n\nend Qty.Gen.Algos\n')


if __name__ == "__main__":
    import sys
    print(run(sys.argv[1] if len(sys.argv) > 1 else "/repo"))
    for f in FAILURES:
        sys.stderr.write("NOT TRANSLATED: " + f + "\n")
