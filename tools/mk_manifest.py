#!/usr/bin/env python3
"""Writes MANIFEST.json from the table below (claimed = a props/cXX.py module
and a Props/CXX.lean file exist)."""
import json
import os

VERIF = os.path.dirname(os.path.dirname(os.path.abspath(__file__)))

TEXT = {
    "C01": ("Theorems over every arithmetic satisfying the rounding laws, every unit table and unit pair: result unit, same-unit identity, equiv_amount = convert amount, and an explicit rational error bound on the magnitude; the same bound is the run-time oracle evaluated with exact rationals on implementation outputs for every ordered unit pair of every type in both back-ends.",
            "§4 C01", "full"),
    "C02": ("Theorems: same-unit reduction, agreement with the exact order outside the one-conversion margin, eq <-> partial_cmp = Equal, operand-order symmetry; oracle evaluated on both operand orders for equal-by-construction and neighbouring magnitudes. The comparison oracles are proved never to reject the model's own output (OracleSoundC02).",
            "§4 C02", "full"),
    "C03": ("Theorems: result unit, same-unit exactness (literally the amount type's + - /), explicit error bounds for mixed units; oracle with exact rationals over all ordered unit pairs.",
            "§4 C03", "full"),
    "C04": ("Theorems: explicit error bounds on both branches (natural unit / fitted unit) of the generated Mul/Div bodies and on the round trips; generated impl list = model's implsOf of the declarations; oracle over all unit pairs of all derived operator instances, four owned/borrowed forms. Round trips (x*y)/y and (x/y)*y: mul_then_div_mag / div_then_mul_mag, executed as two-step chains on the implementation's own intermediate with the theorems' conclusion as oracle; the table hypotheses are discharged for every macro-generated table (Bridge2).",
            "§4 C04", "full"),
    "C05": ("Theorems characterising the unit chosen by unit_from_scale/_fit (membership, natural unit, greatest eligible scale <= magnitude, fallback to the smallest), totality of _fit on well-formed tables; oracle evaluates the same characterisation on implementation results. Bridge theorems discharge the table hypotheses (reference unit among the units, sortedness of the eligible units, reference unit first among scale-one units) for EVERY table the macro generates and, by kernel evaluation, for the whole catalogue.",
            "§4 C05", "full"),
    "C06": ("Theorem: the impl table generated from any declaration list accepts exactly the dimensionally meaningful operator applications (sound and complete w.r.t. an independent specification relation) and dimension vectors are consistent on the generated catalogue; tie: rustc verdict for all 1350 catalogue expressions compared with the model's prediction.",
            "§4 C06", "partial: rustc's trait selection is modelled"),
    "C07": ("Kernel-checked equality of the regenerated unit tables with an independently written definition table (symbols, prefixes, names, exact scales / 1e-15 closeness, SI consistency, ref scale one); tie: registry dump of the compiled crate vs the model of the macro.",
            "§4 C07", "full"),
    "C08": ("Structural theorems (constructor stores, scalar ops keep the unit and are literally the amount type's product/quotient) for every arithmetic, unit type and amount; tie: bit-exact correspondence on every unit of every type incl. NaN/inf/-0/subnormals and decimal boundary coefficients.",
            "§4 C08", "full"),
    "C09": ("Theorems for every accepted declaration: iteration is a sorted, stable permutation of the declared units with the reference unit first among scale-one units; lookup = List.find? laws; constants reach their units; tie: registry dump + lookups on all symbols/scales incl. near misses. Generated tables satisfy the hypotheses (Bridge); lookups that must return the FIRST match are also run after a lookup in another type that lands on the later duplicate's position.",
            "§4 C09", "full"),
    "C10": ("Theorems: equality iff same unit and equal amounts, different units unordered, + - / of different units is the documented panic, same-unit reduction to the amount type, single-unit types; tie: all ordered unit pairs of Temperature and synthetic no-ref/single-unit types. Every comparison line also compares a value with itself (one object).",
            "§4 C10", "full"),
    "C11": ("Theorems on the token-level model of the macro front end: every well-formed definition expands, faithfully (names, symbols, prefixes, literal scales, path), and permuting unit attributes only permutes equal-scale units; tie: generated crates compiled with the real macro and dumped. The macro's own code (entry point included) runs as a library on 1 300 generated definitions per run; parsed definition, generated accessor arms, constants, variants, impls, stray items are compared with the model.",
            "§4 C11", "partial: syn / rustc are modelled"),
    "C12": ("One theorem per defect class: every raw definition having the defect is rejected by the model of the macro at the offending site; derived definitions need reference units (HasRefUnit bounds); tie: cargo check verdict and primary span of generated malformed programs and of tests/ui.",
            "§4 C12", "partial: syn / rustc are modelled"),
    "C13": ("Theorems: accessors, reciprocal swaps and is involutive, rate*qty / qty*rate / qty/rate are the stated expressions with explicit error bounds, mutual inverse; tie: correspondence over type pairs incl. dimensionless and single-unit. The rate oracles are proved never to reject the model's own output (OracleSoundC13).",
            "§4 C13", "full"),
    "C14": ("Theorems for every table: same-unit identity, first matching row (List.find?), none without a row; for the regenerated temperature table: covers all pairs, rows match the exact formulas, inverse/compose bounds; tie: random tables and the temperature table on all 9 pairs. What convert COMPUTES is mutually inverse and composes consistently within explicit bounds: conv_roundtrip_sound / conv_compose_sound for any table and arithmetic, temp_roundtrip_dec / temp_compose_dec for the regenerated table and all decimal amounts up to 1e12.",
            "§4 C14", "full"),
    "C15": ("Theorems on the model of Quantity::fmt / Unit::fmt / Rate Display and of core::fmt padding: shape, sign, round trip, width and precision; oracle on implementation strings (parse back, exact rounding, char width). The binary64 amount text is computed by the model (shortest round-trip digits / exact expansion rounded half-even) with theorems for all 2^64 bit patterns (shape, correct rounding, bit-exact round trip, shortest and closest) and compared with std.",
            "§4 C15", "partial: core::fmt is modelled"),
    "C16": ("Kernel-checked theorems on the regenerated five SI tables: equal to the SI brochure table, injective, from_exp/from_abbr characterised for ALL integers and ALL strings, iteration complete and increasing; tie: exhaustive run over all i8 and all short strings on the implementation.",
            "§4 C16", "full"),
    "C17": ("Theorems: de(ser(q)) = q and injectivity on the serde data-model tree for both amount types (decimal via Display/FromStr round trip); tie: serde_json value tree and text on all units x adversarial amounts. The binary64 JSON number text is computed by the model (ryu layout and tie rule) and compared with serde_json.",
            "§4 C17", "partial: serde_derive / serde_json are modelled"),
    "C18": ("Theorems: no modelled operation returns a panic in f64; none in decimal inside the stated magnitude domain; otherwise only the documented unit-mismatch panic; tie: panic kinds of every executed op compared with the model. End-to-end for every macro-generated table and the whole catalogue (C18Generated); formatting of quantities, units and rates incl. very long precisions and re-entrant sinks in the correspondence.",
            "§4 C18", "full for modelled ops"),
    "C19": ("Theorems on the regenerated feature graph: import-closedness of the enabled module set for ALL 2^14 feature subsets, exactly one AmountT definition per configuration; tie: cargo check of the configurations and corpus equality across them. A regenerated inventory of every conditional-compilation site: code_depends_on_fpdec_only and results_feature_independent (all pairs of feature sets selecting the same amount type compile the same code).",
            "§4 C19", "partial: cargo / rustc are modelled"),
}

NOTE = ("Trusted: Lean 4.33 kernel (axioms propext, Classical.choice, Quot.sound only; audited on every run), "
        "the translator tools/translate.py (regenerates the Lean tables from /repo on every run), the Rust harness + "
        "Lean driver + line protocol (correspondence). Modelled, tied by correspondence only: IEEE-754 binary64 of the CPU, "
        "fpdec 0.11 internals, rustc literal conversion")


def main():
    m = json.load(open(os.path.join(VERIF, "MANIFEST.json")))
    checks = []
    na = []
    claimed = []
    for pid in sorted(TEXT):
        have = os.path.exists(os.path.join(VERIF, f"tools/props/{pid.lower()}.py")) and \
            os.path.exists(os.path.join(VERIF, f"lean/QtyModel/Props/{pid}.lean")) and \
            "\ntheorem " in open(os.path.join(VERIF, f"lean/QtyModel/Props/{pid}.lean"), encoding="utf-8").read()
        text, ref, label = TEXT[pid]
        if not have:
            na.append(dict(property_id=pid, reason="check not built yet in this round (planned: DESIGN.md " + ref + ")"))
            continue
        claimed.append(pid)
        checks.append(dict(
            property_id=pid,
            quick_cmd=f"./check {pid} quick",
            thorough_cmd=f"./check {pid} thorough",
            evidence_file=f"/verif/evidence/{pid}.json",
            replay_cmd_template=f"./check {pid} --replay {{path}}",
            engine="qtymodel",
            level_claimed=dict(category="proof", text=f"[{label}] " + text, design_ref="DESIGN.md " + ref),
            level_note=NOTE + ("; " + label if label.startswith("partial") else ""),
            technique="Lean 4 theorems over an executable model; model tied to the code by a regenerating translator and a differential correspondence check; theorem conclusions evaluated as run-time oracle",
        ))
    m["checks"] = checks
    m["not_applicable"] = na
    m["engines"][0]["serves_properties"] = claimed
    json.dump(m, open(os.path.join(VERIF, "MANIFEST.json"), "w"), indent=1)
    print("claimed:", claimed)


if __name__ == "__main__":
    main()
