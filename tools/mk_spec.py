#!/usr/bin/env python3
"""Mechanical conversion of the hand-written spec/units.spec into
lean/QtyModel/Spec/Units.lean (strings become code-point lists, decimals become
exact rationals).  Both files are committed; run this after editing the spec."""
import os
import re
import sys
from fractions import Fraction

VERIF = os.path.dirname(os.path.dirname(os.path.abspath(__file__)))


def lt(s):
    return "[" + ", ".join(str(ord(c)) for c in s) + "]"


def rat(q):
    q = Fraction(q)
    return f"({q.numerator} : Rat) / {q.denominator}" if q.denominator != 1 else f"({q.numerator} : Rat)"


def parse_def(qty, text):
    text = text.strip()
    if text in ("ref", "none"):
        return text, []
    toks = re.findall(r"[*/]|[^\s*/]+", text)
    sign = 1
    out = []
    for t in toks:
        if t == "*":
            sign = 1
            continue
        if t == "/":
            sign = -1
            continue
        pw = 1
        if "^" in t:
            t, p = t.split("^")
            pw = int(p)
        if re.fullmatch(r"[0-9.]+(/[0-9]+)?", t):
            if "/" in t:
                a, b = t.split("/")
                q = Fraction(a) / Fraction(b)
            else:
                q = Fraction(t)
            out.append(f".num ({rat(q ** (sign * pw))})")
        elif t == "pi":
            out.append(f".pi ({sign * pw})")
        else:
            if "." in t:
                q2, u = t.rsplit(".", 1)
            else:
                q2, u = qty, t
            out.append(f".unit {lt(q2)} {lt(u)} ({sign * pw})")
        sign = 1
    return "def", out


def main():
    rows = []
    for line in open(os.path.join(VERIF, "spec/units.spec"), encoding="utf-8"):
        line = line.rstrip("\n")
        if not line.strip() or line.lstrip().startswith("#"):
            continue
        qty, ident, sym, pfx, d = [x.strip() for x in line.split("|")]
        kind, factors = parse_def(qty, d)
        rows.append((qty, ident, sym, pfx, kind, factors, d))
    o = ["-- Mechanically converted from spec/units.spec by tools/mk_spec.py (strings -> code points,",
         "-- decimals -> exact rationals).  The hand-written source of truth is spec/units.spec.",
         "import QtyModel.Case", "set_option maxRecDepth 16384", "namespace Qty.Spec.Units", "open Qty", "",
         "inductive Factor where", "  | num (q : Rat)", "  | unit (qty ident : Text) (pow : Int)", "  | pi (pow : Int)",
         "  deriving Repr, Inhabited", "",
         "inductive Kind where", "  | ref | noScale | defined", "  deriving DecidableEq, Repr, Inhabited", "",
         "structure Row where", "  qty : Text", "  ident : Text", "  symbol : Text", "  pfx : Option Text",
         "  kind : Kind", "  factors : List Factor", "  deriving Repr, Inhabited", "",
         "def rows : List Row := ["]
    body = []
    for qty, ident, sym, pfx, kind, factors, d in rows:
        k = {"ref": ".ref", "none": ".noScale", "def": ".defined"}[kind]
        p = "none" if pfx == "-" else f"some {lt(pfx)}"
        body.append(f"  -- {qty} | {ident} | {sym} | {pfx} | {d}\n  ⟨{lt(qty)}, {lt(ident)}, {lt(sym)}, {p}, {k}, [" + ", ".join(factors) + "]⟩")
    o.append(",\n".join(body))
    o.append("]")
    o.append("")
    o.append("end Qty.Spec.Units")
    with open(os.path.join(VERIF, "lean/QtyModel/Spec/Units.lean"), "w", encoding="utf-8") as f:
        f.write("\n".join(o) + "\n")
    print(len(rows), "rows")


if __name__ == "__main__":
    sys.exit(main())
