"""Generated-program checks: build throw-away crates against the working tree of
the repository with `cargo check --message-format=json` and collect the
diagnostics (level, code, primary span)."""
import json
import os
import shutil
import subprocess
import tempfile

import pipeline as pl

ALL_FEATURES = ["mass", "length", "duration", "area", "volume", "speed", "acceleration", "force", "energy",
                "power", "frequency", "datavolume", "datathroughput", "temperature"]


class Diag:
    __slots__ = ("level", "code", "file", "line", "line_end", "message", "macro_line")

    def __init__(self, level, code, file, line, line_end, message, macro_line=None):
        self.level, self.code, self.file, self.line, self.line_end, self.message = level, code, file, line, line_end, message
        self.macro_line = macro_line

    def as_dict(self):
        return dict(level=self.level, code=self.code, file=self.file, line=self.line, message=self.message[:200])


def make_crate(root, name, lib_rs, quantities_features, default_features=True, astro=False, extra_files=None,
               extra_deps=""):
    d = os.path.join(root, name)
    os.makedirs(os.path.join(d, "src"), exist_ok=True)
    feats = ", ".join(f'"{f}"' for f in quantities_features)
    dep = f'quantities = {{ path = "{pl.REPO}", default-features = {str(default_features).lower()}, features = [{feats}] }}'
    astro_dep = f'astronomical-quantities = {{ path = "{pl.REPO}/astronimical_quantities" }}\n' if astro else ""
    with open(os.path.join(d, "Cargo.toml"), "w") as f:
        f.write(f'[package]\nname = "{name}"\nversion = "0.0.0"\nedition = "2021"\n\n[workspace]\n\n'
                f'[features]\nserde = []\n\n[dependencies]\n{dep}\n{astro_dep}{extra_deps}\n')
    with open(os.path.join(d, "src/lib.rs"), "w", encoding="utf-8") as f:
        f.write(lib_rs)
    for rel, content in (extra_files or {}).items():
        p = os.path.join(d, rel)
        os.makedirs(os.path.dirname(p), exist_ok=True)
        with open(p, "w", encoding="utf-8") as f:
            f.write(content)
    shutil.copy(os.path.join(pl.REPO, "Cargo.lock"), os.path.join(d, "Cargo.lock"))
    os.makedirs(os.path.join(d, ".cargo"), exist_ok=True)
    with open(os.path.join(d, ".cargo/config.toml"), "w") as f:
        f.write("[net]\noffline = true\n")
    return d


def _primary(spans):
    """(file, line_start, line_end, innermost-user-line) of the primary span; for spans inside a
    macro expansion follow the expansion chain to the call site"""
    for sp in spans:
        if sp.get("is_primary"):
            cur = sp
            while cur.get("expansion") and cur["expansion"].get("span"):
                cur = cur["expansion"]["span"]
            return cur["file_name"], cur["line_start"], cur["line_end"]
    return None, 0, 0


def cargo_check(crate_dir, target_key, timeout=1800, extra_args=()):
    """returns (ok, [Diag], raw_tail)"""
    env = dict(pl.ENV, CARGO_TARGET_DIR=os.path.join(pl.CACHE, "target-gen-" + target_key))
    env.pop("RUSTFLAGS", None)
    p = subprocess.run(["cargo", "check", "--message-format=json", "--quiet"] + list(extra_args), cwd=crate_dir, env=env,
                       stdout=subprocess.PIPE, stderr=subprocess.PIPE, text=True, timeout=timeout)
    diags = []
    for line in p.stdout.splitlines():
        try:
            m = json.loads(line)
        except ValueError:
            continue
        if m.get("reason") != "compiler-message":
            continue
        msg = m["message"]
        if msg.get("level") not in ("error", "error: internal compiler error"):
            continue
        f, l1, l2 = _primary(msg.get("spans", []))
        diags.append(Diag(msg["level"], (msg.get("code") or {}).get("code"), f, l1, l2, msg.get("message", "")))
    return p.returncode == 0, diags, (p.stderr or "")[-3000:]


class TempRoot:
    """temp dir for generated crates, removed on exit"""

    def __enter__(self):
        self.d = tempfile.mkdtemp(prefix="qtyverif-")
        return self.d

    def __exit__(self, *a):
        shutil.rmtree(self.d, ignore_errors=True)
