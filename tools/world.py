"""Registry of the model (parsed from `driver dump`), amount encodings and the
seeded amount generators used by the op generators."""
import struct
from fractions import Fraction

from gen_harness import parse_dump

MASK = (1 << 64) - 1


class Rng:
    """SplitMix64; every random choice of a run derives from one state."""

    def __init__(self, seed):
        self.s = seed & MASK

    def next(self):
        self.s = (self.s + 0x9E3779B97F4A7C15) & MASK
        z = self.s
        z = ((z ^ (z >> 30)) * 0xBF58476D1CE4E5B9) & MASK
        z = ((z ^ (z >> 27)) * 0x94D049BB133111EB) & MASK
        return z ^ (z >> 31)

    def below(self, n):
        return self.next() % n

    def choice(self, xs):
        return xs[self.below(len(xs))]

    def chance(self, num, den):
        return self.below(den) < num

    def shuffle(self, xs):
        xs = list(xs)
        for i in range(len(xs) - 1, 0, -1):
            j = self.below(i + 1)
            xs[i], xs[j] = xs[j], xs[i]
        return xs


# ------------------------------------------------------------------ f64

def f64_bits(x):
    return struct.unpack(">Q", struct.pack(">d", x))[0]


def f64_from_bits(b):
    return struct.unpack(">d", struct.pack(">Q", b))[0]


def enc_f64(x):
    if x != x:
        return "xnan"
    return "x%016x" % f64_bits(x)


def dec_f64(s):
    if s == "xnan":
        return float("nan")
    return f64_from_bits(int(s[1:], 16))


def f64_next(x, up=True):
    """neighbouring double"""
    b = f64_bits(x)
    if x == 0.0:
        return f64_from_bits(1) if up else -f64_from_bits(1)
    if (x > 0) == up:
        b += 1
    else:
        b -= 1
    return f64_from_bits(b)


def frac_to_f64(q):
    """correctly rounded (Python's int/int true division is correctly rounded)"""
    q = Fraction(q)
    try:
        return q.numerator / q.denominator
    except OverflowError:
        return float("inf") if q > 0 else float("-inf")


# ------------------------------------------------------------------ decimal

def enc_dec(coeff, nfd):
    return f"d{coeff}/{nfd}"


def dec_dec(s):
    c, n = s[1:].split("/")
    return int(c), int(n)


def dec_value(s):
    c, n = dec_dec(s)
    return Fraction(c, 10 ** n)


def frac_to_dec(q, nfd=None):
    """nearest decimal with at most 18 fractional digits (minimal digit count)"""
    q = Fraction(q)
    for n in (range(0, 19) if nfd is None else [nfd]):
        c = q * 10 ** n
        if c.denominator == 1 and abs(c) < 2 ** 127:
            return int(c), n
    for n in range(18, -1, -1):
        c = int(round(q * 10 ** n))
        if abs(c) < 2 ** 127:
            return c, n
    return (2 ** 127 - 1 if q > 0 else -(2 ** 127) + 1), 0


def amount_value(be, s):
    if be == "f64":
        x = dec_f64(s)
        if x != x or x in (float("inf"), float("-inf")):
            return None
        return Fraction(x)
    return dec_value(s)


def enc_frac(be, q):
    """encode the amount nearest to the rational q"""
    if be == "f64":
        return enc_f64(frac_to_f64(q))
    c, n = frac_to_dec(q)
    return enc_dec(c, n)


# ------------------------------------------------------------------ world

class World:
    def __init__(self, be, dump_text):
        self.be = be
        self.types, self.impls, self.failed = parse_dump(dump_text)
        self.by_name = {t["name"]: t for t in self.types}
        for t in self.types:
            for u in t["units"]:
                u["scale_val"] = amount_value(be, u["scale"]) if u["scale"] != "-" else None

    def pairs(self, t, rng=None):
        """ordered unit pairs of a type: all of them; for the two very large synthetic types (more units
        than an 8-bit discriminant can tell apart) the diagonal sample, every pair 256 positions apart in
        both directions, neighbours, and a random sample"""
        n = t["n"]
        if n <= 40:
            return [(i, j) for i in range(n) for j in range(n)]
        out = []
        for i in range(n):
            for d in (256, 128, 255, 257):
                if i + d < n:
                    out += [(i, i + d), (i + d, i)]
        out += [(i, i) for i in range(0, n, 37)] + [(i, i + 1) for i in range(0, n - 1, 41)]
        if rng is not None:
            out += [(rng.below(n), rng.below(n)) for _ in range(60)]
        return out

    def withref(self):
        return [t for t in self.types if t["kind"] == "withref"]

    def noref(self):
        return [t for t in self.types if t["kind"] != "withref"]

    def derived(self):
        """(op, L, R, O) with qualified names, only where all three types exist here"""
        out = []
        for im in self.impls:
            pref = ""
            for p in ("A:", "S:"):
                if im["owner"].startswith(p):
                    pref = p
            q = lambda n: n if n == "AmountT" else pref + n  # noqa: E731
            l, r, o = q(im["lhs"]), q(im["rhs"]), q(im["out"])
            if l in self.by_name and r in self.by_name and o in self.by_name:
                out.append((im["op"], l, r, o))
        return out


# ------------------------------------------------------------------ amount classes

def amounts_f64(rng, n_random=4):
    """(label, encoded) finite f64 amounts of various classes"""
    out = [("zero", 0.0), ("negzero", -0.0), ("one", 1.0), ("negone", -1.0),
           ("small-int", float(rng.below(50) + 2)), ("neg-int", -float(rng.below(1000) + 2)),
           ("short-dec", (rng.below(99999) + 1) / 100.0), ("tenth", 0.1), ("third", 1.0 / 3.0),
           ("pow2", 2.0 ** (rng.below(40) - 20)), ("pow10", 10.0 ** (rng.below(20) - 10)),
           ("tiny", 1e-300 * (rng.below(9) + 1)), ("huge", 1e300 / (rng.below(9) + 1)),
           ("subnormal", f64_from_bits(rng.below(1 << 40) + 1)),
           # the two neighbours of one ("equal to one up to EPSILON" holds for exactly one value besides 1.0)
           ("one-prev", 0.9999999999999999), ("one-next", 1.0000000000000002)]
    # whole numbers at the boundaries of the integer types (a detour through i32 / i64 / u64 saturates or wraps there)
    b = [2.0 ** 31, 2.0 ** 32, 2.0 ** 53, 2.0 ** 63, 2.0 ** 64][rng.below(5)]
    out.append(("int-boundary", [b, -b, b + 2 * (b // 2 ** 52 or 1), -(b * (1 + 2.0 ** -52)), b - 1 if b < 2 ** 53 else b * (1 - 2.0 ** -53)][rng.below(5)]))
    for _ in range(n_random):
        # full-precision mantissa, moderate exponent
        m = rng.below(1 << 52)
        e = 1023 + rng.below(60) - 30
        s = rng.below(2)
        out.append(("full-mantissa", f64_from_bits((s << 63) | (e << 52) | m)))
    return [(lab, enc_f64(x)) for lab, x in out]


def specials_f64():
    return [("inf", "x7ff0000000000000"), ("neginf", "xfff0000000000000"), ("nan", "xnan"),
            ("max", "x7fefffffffffffff"), ("min-sub", "x0000000000000001")]


def amounts_dec(rng, n_random=4):
    out = [("zero", (0, 0)), ("zero-digits", (0, 3)), ("one", (1, 0)), ("one-digits", (1000, 3)),
           ("negone", (-1, 0)), ("small-int", (rng.below(50) + 2, 0)), ("neg-int", (-(rng.below(1000) + 2), 0)),
           ("short-dec", (rng.below(99999) + 1, 2)), ("tenth", (1, 1)),
           ("third18", (333333333333333333, 18)), ("pow10", (1, rng.below(15))),
           ("big-int", (10 ** (rng.below(6) + 9) + rng.below(1000), 0)),
           ("tiny", (rng.below(9) + 1, 15))]
    # integral VALUES written with fractional digits (2.0, 3.00, 120.000): the coefficient is not the integer
    j = rng.below(6) + 1
    out.append(("int-digits", ((rng.below(50) + 2) * 10 ** j, j)))
    out.append(("neg-int-digits", (-(rng.below(9) + 1) * 10 ** j, j)))
    # coefficients at the boundaries of the integer types, with and without fractional digits
    cb = [2 ** 31, 2 ** 32, 2 ** 63, 2 ** 64][rng.below(4)] + rng.below(3) - 1
    out.append(("coeff-boundary", (cb if rng.below(2) else -cb, [0, 1, 9, 18][rng.below(4)])))
    for _ in range(n_random):
        nfd = rng.below(19)
        digits = rng.below(17) + 1
        c = rng.below(10 ** digits) + 1
        if rng.below(2):
            c = -c
        out.append(("random", (c, nfd)))
    return [(lab, enc_dec(*x)) for lab, x in out]


def specials_dec():
    return [("max", enc_dec(2 ** 127 - 1, 0)), ("min", enc_dec(-(2 ** 127) + 1, 0)),
            ("max18", enc_dec(2 ** 127 - 1, 18)), ("delta", enc_dec(1, 18)),
            ("big", enc_dec(10 ** 30, 0)), ("big18", enc_dec(10 ** 36 + 7, 18))]


_CODE_LITS = None


def code_literals():
    """numeric literals of the algorithm sources that the verified snapshot does not contain
    (`tools/literals.py`, written by `pipeline.prepare`); empty on the unchanged tree"""
    global _CODE_LITS
    if _CODE_LITS is None:
        import json
        import os
        p = os.path.join(os.path.dirname(os.path.dirname(os.path.abspath(__file__))), "work", "code_literals.json")
        try:
            _CODE_LITS = [Fraction(n, d) for n, d in json.load(open(p))]
        except Exception:  # noqa: BLE001
            _CODE_LITS = []
    return _CODE_LITS


def literal_amounts(be, rng):
    """amount classes around every such literal: the value, its neighbours, its negative, half and double,
    and the value scaled by a power of ten (a threshold on a magnitude is met by amounts in other units)"""
    out = []
    for v in code_literals():
        cands = [("code-literal", v), ("code-literal-neg", -v), ("code-literal-half", v / 2), ("code-literal-double", v * 2),
                 ("code-literal-scaled", v * Fraction(10) ** (rng.below(25) - 12))]
        if be == "f64":
            x = frac_to_f64(v)
            out += [("code-literal-next", enc_f64(f64_next(x))), ("code-literal-prev", enc_f64(f64_next(x, False)))]
            out += [(lab, enc_f64(frac_to_f64(q))) for lab, q in cands]
        else:
            eps = Fraction(1, 10 ** 18)
            cands += [("code-literal-next", v + eps), ("code-literal-prev", v - eps)]
            for lab, q in cands:
                c, n = frac_to_dec(q)
                if abs(c) < 2 ** 127:
                    out.append((lab, enc_dec(c, n)))
    return out


def amounts(be, rng, n_random=4):
    base = amounts_f64(rng, n_random) if be == "f64" else amounts_dec(rng, n_random)
    lits = literal_amounts(be, rng)
    # the dictionary classes get about half of the draws when there are any
    return base + lits * max(1, len(base) // max(1, len(lits))) if lits else base


def specials(be):
    return specials_f64() if be == "f64" else specials_dec()
