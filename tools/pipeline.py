"""Build pipeline shared by all checks: translate -> lake build -> dump ->
harness generation -> cargo build (both back-ends) -> run ops on both sides."""
import json
import os
import subprocess
import sys
import time

VERIF = os.path.dirname(os.path.dirname(os.path.abspath(__file__)))
REPO = os.environ.get("VERIF_REPO", "/repo")
LEAN = os.path.join(VERIF, "lean")
WORK = os.path.join(VERIF, "work")
CACHE = os.path.join(VERIF, ".cache")
DRIVER = os.path.join(LEAN, ".lake/build/bin/driver")
NPROC = os.cpu_count() or 4

ENV = dict(os.environ, CARGO_NET_OFFLINE="true", CARGO_TERM_COLOR="never")


class Broken(Exception):
    """A proof obligation / build step / correspondence that no longer checks."""

    def __init__(self, obligation, detail):
        super().__init__(f"{obligation}: {detail[:400]}")
        self.obligation = obligation
        self.detail = detail


def sh(cmd, cwd=None, timeout=3600, env=None, stdin=None):
    p = subprocess.run(cmd, cwd=cwd, env=env or ENV, stdout=subprocess.PIPE, stderr=subprocess.STDOUT,
                       timeout=timeout, text=True, input=stdin)
    return p.returncode, p.stdout


def translate():
    rc, out = sh([sys.executable, os.path.join(VERIF, "tools/translate.py"), REPO, VERIF])
    if rc != 0:
        raise Broken("translate", out)
    return out


def lake_build(targets):
    """build lake targets; returns (ok, output)"""
    rc, out = sh(["lake", "build"] + list(targets), cwd=LEAN, timeout=7200)
    return rc == 0, out


def build_driver():
    ok, out = lake_build(["driver"])
    if not ok:
        raise Broken("model.build", out[-4000:])


def dump():
    os.makedirs(WORK, exist_ok=True)
    res = {}
    for be in ("f64", "dec"):
        rc, out = sh([DRIVER, be, "dump"])
        if rc != 0:
            raise Broken("model.dump", out)
        with open(os.path.join(WORK, f"dump_{be}.txt"), "w", encoding="utf-8") as f:
            f.write(out)
        res[be] = out
    return res


def gen_harness():
    rc, out = sh([sys.executable, os.path.join(VERIF, "tools/gen_harness.py"), VERIF, REPO])
    if rc != 0:
        raise Broken("harness.gen", out)


def harness_bin(be):
    return os.path.join(CACHE, f"target-{be}", "debug", "harness")


ALL_GROUPS = ("g_derived", "g_rate", "g_tconv", "g_ser", "temp")


def _cargo_harness(be, groups, astro=True):
    # `serde` (which switches on quantities/serde) only when the serialisation group is built
    feats = (["astro"] if (be == "f64" and astro) else []) + (["dec"] if be == "dec" else []) + \
        (["serde"] if "g_ser" in groups else []) + list(groups)
    env = dict(ENV, CARGO_TARGET_DIR=os.path.join(CACHE, f"target-{be}"), RUSTFLAGS="-Awarnings")
    return subprocess.Popen(["cargo", "build", "--features", ",".join(feats), "--message-format=short"],
                            cwd=os.path.join(VERIF, "harness"), env=env, stdout=subprocess.PIPE,
                            stderr=subprocess.STDOUT, text=True)


def build_harness(backends=("f64", "dec"), needed=ALL_GROUPS):
    """cargo build of the harness in the requested back-ends (in parallel).  First with every
    operation group; if that does not compile, with only the groups the property at hand needs,
    so that a change breaking e.g. the serde derives does not stop the checks of other
    properties.  Returns the list of groups that had to be dropped."""
    lock = os.path.join(VERIF, "harness/Cargo.lock")
    if not os.path.exists(lock):
        import shutil
        shutil.copy(os.path.join(REPO, "Cargo.lock"), lock)
    procs = [(be, _cargo_harness(be, ALL_GROUPS)) for be in backends]
    errs = {}
    for be, p in procs:
        out, _ = p.communicate(timeout=3600)
        if p.returncode != 0:
            errs[be] = out
    if not errs:
        return []
    if set(needed) == set(ALL_GROUPS):
        be = sorted(errs)[0]
        raise Broken("harness.build." + be, errs[be][-6000:])
    procs = [(be, _cargo_harness(be, needed)) for be in backends]
    errs2 = {}
    for be, p in procs:
        out, _ = p.communicate(timeout=3600)
        if p.returncode != 0:
            errs2[be] = out
    if errs2:
        be = sorted(errs2)[0]
        raise Broken("harness.build." + be, errs2[be][-6000:])
    return [g for g in ALL_GROUPS if g not in needed]


def run_ops(be, lines, tag):
    """run the op lines on the implementation and the model; returns list of
    (line, impl_out, model_out, verdict)"""
    os.makedirs(WORK, exist_ok=True)
    ops_p = os.path.join(WORK, f"{tag}_{be}.ops")
    impl_p = os.path.join(WORK, f"{tag}_{be}.impl")
    with open(ops_p, "w", encoding="utf-8") as f:
        f.write("\n".join(lines) + ("\n" if lines else ""))
    with open(ops_p, encoding="utf-8") as fin, open(impl_p, "w", encoding="utf-8") as fout:
        p = subprocess.run([harness_bin(be)], stdin=fin, stdout=fout, stderr=subprocess.PIPE, text=True, timeout=3600)
    if p.returncode != 0:
        raise Broken(f"harness.run.{be}", p.stderr[-2000:])
    rc, out = sh([DRIVER, be, "run", ops_p, impl_p], timeout=3600)
    if rc != 0:
        raise Broken(f"model.run.{be}", out[-2000:])
    impl = open(impl_p, encoding="utf-8").read().split("\n")
    model = out.split("\n")
    res = []
    for i, l in enumerate(lines):
        io = impl[i] if i < len(impl) else "<missing>"
        mo = model[i] if i < len(model) else "<missing>\tskip:missing"
        m, _, v = mo.partition("\t")
        res.append((l, io, m, v))
    return res


def prepare(backends=("f64", "dec"), needed=ALL_GROUPS):
    """everything up to runnable binaries; returns dict of timings"""
    t = {}
    t0 = time.time()
    translate()
    # numeric literals of the algorithm sources that the verified snapshot does not contain: a dictionary
    # for the input generators (empty on the unchanged tree)
    try:
        import literals
        lits = literals.write(REPO, VERIF)
        if lits:
            t["code_literals"] = [str(v) for v in lits]
    except Exception as e:  # noqa: BLE001 - a search heuristic must never stop a check
        t["code_literals_error"] = str(e)[:200]
    t["translate"] = time.time() - t0
    t0 = time.time()
    build_driver()
    t["driver"] = time.time() - t0
    dump()
    gen_harness()
    t0 = time.time()
    t["dropped_groups"] = build_harness(backends, needed)
    t["harness"] = time.time() - t0
    return t
