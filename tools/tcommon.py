"""Pieces shared by translate.py and translate_tables.py."""
import os
from rusttok import tokenize, matching, is_p


class Untranslatable(Exception):
    pass


def split_attr(toks, i):
    """toks[i] == '#', toks[i+1] == '[' -> (path_idents, inner_tokens_or_None, end_index)"""
    close = matching(toks, i + 1)
    body = toks[i + 2:close]
    path = []
    j = 0
    while j < len(body) and (body[j].kind == "ident" or is_p(body[j], ":")):
        if body[j].kind == "ident":
            path.append(body[j].text)
        j += 1
    inner = None
    if j < len(body) and is_p(body[j], "("):
        c = matching(body, j)
        inner = body[j + 1:c]
        if c != len(body) - 1:
            inner = None if False else inner
    return path, inner, close + 1


def lean_text(s):
    return "[" + ", ".join(str(ord(c)) for c in s) + "]"


def lean_lit(l):
    parts = [f"digits := {l['digits']}"]
    if l["nfrac"]:
        parts.append(f"nfrac := {l['nfrac']}")
    if l["exp"]:
        parts.append(f"exp := {l['exp']}" if l["exp"] >= 0 else f"exp := ({l['exp']})")
    if l["is_float"]:
        parts.append("isFloat := true")
    if l.get("neg"):
        parts.append("neg := true")
    return "{ " + ", ".join(parts) + " }"


def catalogue_modules(repo):
    """modules gated by `#[cfg(feature = "x")] pub mod x;` in src/lib.rs, in source order"""
    src = open(os.path.join(repo, "src/lib.rs"), encoding="utf-8").read()
    toks = tokenize(src)
    mods = []
    i = 0
    while i < len(toks):
        if is_p(toks[i], "#") and i + 1 < len(toks) and is_p(toks[i + 1], "["):
            path, inner, j = split_attr(toks, i)
            if path == ["cfg"] and inner and len(inner) == 5 and inner[0].text == "feature" \
                    and is_p(inner[1], "(") is False:
                pass
            if path == ["cfg"] and inner is not None:
                txt = [t.text for t in inner]
                # skip further attributes (e.g. #[doc(hidden)])
                k = j
                while k < len(toks) and is_p(toks[k], "#"):
                    _, _, k = split_attr(toks, k)
                if k + 3 < len(toks) and toks[k].text == "pub" and toks[k + 1].text == "mod" \
                        and toks[k + 2].kind == "ident" and is_p(toks[k + 3], ";"):
                    mods.append(dict(module=toks[k + 2].text, cfg=txt, cfg_toks=inner, line=toks[k].line))
                i = j
                continue
            i = j
            continue
        i += 1
    return mods


