"""Macro-level correspondence (C09, C11, C12, C06, C04): the helper module of qty-macros, compiled as
ordinary library code (harness_macro/), against the Lean model of the macro front end and of the set of
generated impls (`driver <be> frontf`), on thousands of generated definitions per run:

  * well-formed definitions of every kind (defgen.Gen.wellformed), with adversarial scale literals
    (ties, values closer than f64 resolution, huge integers, many digits, exponent forms);
  * every defect class of C12 (defgen.defects);
  * token-level edits of well-formed definitions (drop / duplicate / swap / replace one token of one
    attribute or of the derivation argument), which probe the accept/reject boundary beyond the classes.

Compared per definition: accepted or rejected; and for accepted ones the parsed definition (reference
unit, derivation, units in iteration order with identifier, name, symbol, prefix, canonical scale
literal, doc), the constants and enum variants, and the full list of operator impls in the generated
code (operator, operand types, output type, owned/borrowed forms)."""
import copy
import os
import subprocess

import defgen
import pipeline as pl
from world import Rng

BIN = os.path.join(pl.CACHE, "target-macro", "debug", "harness_macro")

EXTRA_LITS = ["1e-17", "1e-18", "0.00000000000000001", "0.000000000000000011", "3e-16", "3.0000000000000001e-16",
              "30856775814913673", "30856775814913672", "9007199254740993", "9007199254740992.", "1000000000000000000000000",
              "1e24", "4294967296", "2147483648", "0.1", "0.10", "1E2", "100", "1_000", "0.5e1", "5", "123456789.123456789",
              "1.0000000000000002", "1.0000000000000001", "0.9999999999999999", "1",
              # a point AND an exponent, digits ending in zeros on either side of the `e`
              "1.0e-10", "1.0e10", "2.50e-10", "1.20e20", "10.0e0", "1.00E+10", "0.10e1", "100e-10", "1e-10", "1e10"]


def build():
    src = os.path.join(pl.VERIF, "harness_macro")
    lock = os.path.join(src, "Cargo.lock")
    import shutil
    shutil.copy(os.path.join(pl.REPO, "Cargo.lock"), lock)
    env = dict(pl.ENV, CARGO_TARGET_DIR=os.path.join(pl.CACHE, "target-macro"), RUSTFLAGS="-Awarnings", QTY_REPO=pl.REPO)
    p = subprocess.run(["cargo", "build", "--offline", "--message-format=short"], cwd=src, env=env,
                       stdout=subprocess.PIPE, stderr=subprocess.STDOUT, text=True, timeout=3600)
    if p.returncode != 0:
        raise pl.Broken("harness_macro.build", p.stdout[-6000:])


def sources(d):
    """(source of the tokens inside #[quantity(...)], source of the item with its other attributes)"""
    lines, _ = d.rust_lines()
    args = " ".join(t.rust() for t in d.args)
    item = [l for l in lines if not l.startswith("#[quantity")]
    return args, "\n".join(item)


def token_edits(g, rng, n):
    """well-formed definitions with one token-level edit"""
    out = []
    for _ in range(n):
        d = g.wellformed(rng.choice(["ref", "ref", "noref", "single"]))
        d = copy.deepcopy(d)
        d.args = []
        a = d.attrs[rng.below(len(d.attrs))]
        toks = a.toks
        k = rng.below(6)
        if not toks:
            continue
        i = rng.below(len(toks))
        if k == 0:
            del toks[i]
        elif k == 1:
            toks.insert(i, copy.deepcopy(toks[i]))
        elif k == 2 and len(toks) > 1:
            j = rng.below(len(toks))
            toks[i], toks[j] = toks[j], toks[i]
        elif k == 3:
            toks[i] = rng.choice([defgen.COMMA, defgen.ident("KILO"), defgen.string("s"), defgen.number("2"),
                                  defgen.number("2.5"), defgen.Tok("p", "-"), defgen.Tok("p", "*")])
        elif k == 4:
            toks.append(rng.choice([defgen.COMMA, defgen.ident("MILLI"), defgen.string("doc"), defgen.number("7")]))
        else:
            # change the kind of the attribute
            a.kind = "ref_unit" if a.kind == "unit" else "unit"
        d.tag = f"edit:{k}"
        out.append(d)
    return out


def arg_edits(g, rng, n):
    out = []
    forms = [
        lambda a, b: [defgen.ident(a), defgen.Tok("p", "*"), defgen.ident(b)],
        lambda a, b: [defgen.ident(a), defgen.Tok("p", "/"), defgen.ident(b)],
        lambda a, b: [defgen.ident(a), defgen.Tok("p", "*"), defgen.ident(a)],
        lambda a, b: [defgen.ident("AmountT"), defgen.Tok("p", "/"), defgen.ident(b)],
        lambda a, b: [defgen.ident(a), defgen.Tok("p", "+"), defgen.ident(b)],
        lambda a, b: [defgen.ident(a), defgen.Tok("p", "%"), defgen.ident(b)],
        lambda a, b: [defgen.ident(a)],
        lambda a, b: [defgen.ident(a), defgen.ident(b)],
        lambda a, b: [defgen.ident(a), defgen.Tok("p", "*")],
        lambda a, b: [defgen.Tok("p", "*"), defgen.ident(b)],
        lambda a, b: [defgen.ident(a), defgen.Tok("p", "*"), defgen.number("2")],
        lambda a, b: [defgen.string(a), defgen.Tok("p", "*"), defgen.ident(b)],
        lambda a, b: [defgen.ident(a), defgen.Tok("p", "*"), defgen.ident(b), defgen.Tok("p", "/"), defgen.ident(a)],
        lambda a, b: [defgen.ident(a), defgen.COMMA, defgen.ident(b)],
        lambda a, b: [defgen.Tok("p", "-"), defgen.ident(a), defgen.Tok("p", "*"), defgen.ident(b)],
        # qualified operands
        lambda a, b: [defgen.ident("self"), defgen.Tok("p", "::"), defgen.ident(a), defgen.Tok("p", "*"), defgen.ident(b)],
        lambda a, b: [defgen.ident(a), defgen.Tok("p", "/"), defgen.ident("crate"), defgen.Tok("p", "::"), defgen.ident(b)],
        lambda a, b: [defgen.ident("other"), defgen.Tok("p", "::"), defgen.ident(a), defgen.Tok("p", "*"), defgen.ident("m"),
                      defgen.Tok("p", "::"), defgen.ident(b)],
        # more than ONE argument: a well-formed derivation followed by a comma and anything (or nothing)
        lambda a, b: [defgen.ident(a), defgen.Tok("p", "*"), defgen.ident(b), defgen.COMMA],
        lambda a, b: [defgen.ident(a), defgen.Tok("p", "*"), defgen.ident(b), defgen.COMMA, defgen.ident(b), defgen.Tok("p", "*"), defgen.ident(a)],
        lambda a, b: [defgen.ident(a), defgen.Tok("p", "/"), defgen.ident(b), defgen.COMMA, defgen.ident(a)],
        lambda a, b: [defgen.ident(a), defgen.Tok("p", "*"), defgen.ident(b), defgen.COMMA, defgen.number("42")],
        # a leading `::`, generic arguments on an operand (a path with ONE segment that is still not an identifier)
        lambda a, b: [defgen.Tok("p", "::"), defgen.ident(a), defgen.Tok("p", "*"), defgen.ident(b)],
        lambda a, b: [defgen.ident(a), defgen.Tok("p", "::"), defgen.Tok("p", "<"), defgen.ident("f64"), defgen.Tok("p", ">"),
                      defgen.Tok("p", "*"), defgen.ident(b)],
        lambda a, b: [defgen.ident(a), defgen.Tok("p", "/"), defgen.ident(b), defgen.Tok("p", "::"), defgen.Tok("p", "<"), defgen.Tok("p", ">")],
        lambda a, b: [defgen.Tok("p", "<"), defgen.ident(a), defgen.ident("as"), defgen.ident("Tr"), defgen.Tok("p", ">"), defgen.Tok("p", "::"),
                      defgen.ident("X"), defgen.Tok("p", "*"), defgen.ident(b)],
        # parenthesised / call / method forms
        lambda a, b: [defgen.Tok("o", "("), defgen.ident(a), defgen.Tok("p", "*"), defgen.ident(b), defgen.Tok("o", ")")],
        lambda a, b: [defgen.ident(a), defgen.Tok("p", "*"), defgen.ident(b), defgen.Tok("o", "("), defgen.Tok("o", ")")],
        lambda a, b: [defgen.ident(a), defgen.Tok("p", "*"), defgen.Tok("p", "&"), defgen.ident(b)],
        lambda a, b: [defgen.ident(a), defgen.Tok("p", "<"), defgen.ident(b)],
    ]
    for i in range(n):
        d = g.wellformed("ref")
        d.args = forms[i % len(forms)](f"Op{rng.below(9)}", f"Oq{rng.below(9)}")
        d.tag = "args"
        out.append(d)
    return out


def adversarial_scales(g, rng, n):
    out = []
    for _ in range(n):
        d = g.wellformed("ref")
        d.args = []
        k = rng.below(4) + 2
        units = [g.unit_attr(True, rng.chance(1, 2), rng.choice(EXTRA_LITS)) for _ in range(k)]
        ref = [a for a in d.attrs if a.kind == "ref_unit"]
        d.attrs = rng.shuffle(units + ref)
        d.tag = "adversarial-scales"
        out.append(d)
    return out


def run(tier, seed):
    """-> (coverage dict, list of failure dicts, list of Broken)"""
    n = 600 if tier == "quick" else 6000
    rng = Rng(seed * 7368787 + 17)
    g = defgen.Gen(rng)
    defs = []
    for i in range(n):
        defs.append(g.wellformed())
    # unit attributes need not form one contiguous block: other attributes and doc comments in between
    for i in range(n // 6):
        d = copy.deepcopy(g.wellformed(rng.choice(["ref", "ref", "noref", "derived"])))
        for _ in range(1 + rng.below(2)):
            d.attrs.insert(rng.below(len(d.attrs) + 1), defgen.OtherAttr(rng.choice(
                ["#[allow(dead_code)]", "/// a line of documentation in between", '#[doc = "interleaved"]',
                 "#[derive(Default)]", "#[must_use]"])))
        d.tag = "wellformed:interleaved"
        defs.append(d)
    defs += adversarial_scales(g, rng, n // 6)
    for _ in range(max(1, n // 150)):
        defs += [d for _, d in defgen.defects(g, rng)]
    defs += token_edits(g, rng, n // 2)
    defs += arg_edits(g, rng, n // 10)
    cov = dict(macro_level_definitions=len(defs), macro_level_accepted=0, macro_level_rejected=0, macro_level_classes={})
    fails, broken = [], []
    try:
        build()
    except pl.Broken as b:
        return cov, fails, [b]
    os.makedirs(pl.WORK, exist_ok=True)
    items_path = os.path.join(pl.WORK, "macrofront_items.txt")
    with open(items_path, "w", encoding="utf-8") as f:
        f.write("\n".join(d.item_text() for d in defs) + "\n")
    inp = []
    for d in defs:
        a, it = sources(d)
        inp.append(f"def {a.encode('utf-8').hex()} {it.encode('utf-8').hex()}")
    p = subprocess.run([BIN], input="\n".join(inp) + "\n", stdout=subprocess.PIPE, stderr=subprocess.PIPE, text=True, timeout=3600)
    if p.returncode != 0:
        return cov, fails, [pl.Broken("harness_macro.run", p.stderr[-3000:])]
    impl = p.stdout.split("\n")
    rc, out = pl.sh([pl.DRIVER, "f64", "frontf", items_path], timeout=3600)
    if rc != 0:
        return cov, fails, [pl.Broken("model.frontf", out[-3000:])]
    model = out.split("\n")
    dis = []
    for k, d in enumerate(defs):
        io = impl[k] if k < len(impl) else "<missing>"
        mo = model[k] if k < len(model) else "<missing>"
        cls = d.tag.split(":")[0] + (":" + d.tag.split(":")[1] if d.tag.startswith("wellformed") else "")
        cov["macro_level_classes"][cls] = cov["macro_level_classes"].get(cls, 0) + 1
        if io.startswith("ok"):
            cov["macro_level_accepted"] += 1
        else:
            cov["macro_level_rejected"] += 1
        if io != mo:
            dis.append((k, d, io, mo))
    for k, d, io, mo in dis:
        a, it = sources(d)
        if io.startswith("ok") and not mo.startswith("ok"):
            what, part = "accepted by the macro, rejected by the model", "verdict:accepted"
        elif mo.startswith("ok") and not io.startswith("ok"):
            what, part = "rejected by the macro, accepted by the model", "verdict:rejected"
        else:
            segs_i, segs_m = io.split(" # "), mo.split(" # ")
            names = ["units", "impls", "consts", "variants", "arms", "items", "serde"]
            diff = [names[j] if j < len(names) else "tail" for j in range(max(len(segs_i), len(segs_m)))
                    if (segs_i[j] if j < len(segs_i) else None) != (segs_m[j] if j < len(segs_m) else None)]
            part = "+".join(diff) or "units"
            what = "parsed definition / generated code differ in: " + part
        fails.append(dict(kind="macro-level", cls=d.tag, part=part, what=what, quantity_args=a, item=it,
                          macro=io[:3000], model=mo[:3000]))
    return cov, fails, broken


def for_property(parts, tier, seed):
    """the macro-level correspondence as seen by one property: `parts` = the kinds of difference that
    are failing inputs of that property (prefix match on `part`); other differences are ignored here.
    -> (coverage, failures, broken)"""
    cov, fails, broken = run(tier, seed)
    mine = [f for f in fails if any(p in f["part"].split("+") or f["part"].startswith(p) for p in parts)]
    if mine:
        broken = broken + [pl.Broken("corr.macrofront", f"{len(mine)} generated definitions differ; first: {mine[0]}")]
    cov["macro_level_parts"] = sorted(parts)
    return cov, mine[:20], broken
