"""Second half of the translator: SI prefix tables, temperature conversion rows,
feature graph / module gates / import edges, Amnt! macro shape."""
import os
import sys

sys.path.insert(0, os.path.dirname(os.path.abspath(__file__)))
from rusttok import tokenize, matching, is_p  # noqa: E402
from tcommon import Untranslatable, lean_text, lean_lit, split_attr, catalogue_modules  # noqa: E402


def rows(pairs):
    """pairs of (lean code, comment) -> lines with the comma before the comment"""
    pairs = list(pairs)
    out = []
    for i, (code, comment) in enumerate(pairs):
        sep = "," if i + 1 < len(pairs) else ""
        c = comment.replace("\n", " ")
        out.append(f"  {code}{sep}  -- {c}")
    return "\n".join(out)


def find_seq(toks, texts, start=0):
    n = len(texts)
    for i in range(start, len(toks) - n + 1):
        if all(toks[i + k].text == texts[k] for k in range(n)):
            return i
    return -1


def split_commas(toks):
    """split a token list at top-level commas"""
    out, cur, depth = [], [], 0
    for t in toks:
        if t.kind == "punct" and t.text in "([{":
            depth += 1
        elif t.kind == "punct" and t.text in ")]}":
            depth -= 1
        if depth == 0 and is_p(t, ","):
            out.append(cur)
            cur = []
        else:
            cur.append(t)
    if cur:
        out.append(cur)
    return out


def signed_int(toks, where):
    if len(toks) == 1 and toks[0].kind == "int":
        return toks[0].value["digits"]
    if len(toks) == 2 and is_p(toks[0], "-") and toks[1].kind == "int":
        return -toks[1].value["digits"]
    raise Untranslatable(f"{where}: integer expected, got {' '.join(t.text for t in toks)}")


def fn_match_arms(toks, fname, where):
    i = find_seq(toks, ["fn", fname])
    if i < 0:
        raise Untranslatable(f"{where}: fn {fname} not found")
    j = i
    while not is_p(toks[j], "{"):
        j += 1
    close = matching(toks, j)
    body = toks[j + 1:close]
    if not body or body[0].text != "match":
        return None, body
    k = 0
    while not is_p(body[k], "{"):
        k += 1
    c = matching(body, k)
    scrut = body[1:k]
    arms = []
    for arm in split_commas(body[k + 1:c]):
        # pattern => expr
        p = None
        for x in range(len(arm) - 1):
            if is_p(arm[x], "=") and is_p(arm[x + 1], ">"):
                p = x
                break
        if p is None:
            raise Untranslatable(f"{where}: arm without => in fn {fname}")
        arms.append((arm[:p], arm[p + 2:]))
    return (scrut, arms), body


def self_variant(toks, where):
    # Self :: X   or  SIPrefix :: X
    if len(toks) == 4 and toks[0].kind == "ident" and is_p(toks[1], ":") and is_p(toks[2], ":") and toks[3].kind == "ident":
        return toks[3].text
    raise Untranslatable(f"{where}: variant path expected, got {' '.join(t.text for t in toks)}")


def some_variant(toks, where):
    # Some ( Self :: X )  | None
    if len(toks) == 1 and toks[0].text == "None":
        return None
    if len(toks) >= 3 and toks[0].text == "Some" and is_p(toks[1], "("):
        return self_variant(toks[2:-1], where)
    raise Untranslatable(f"{where}: Some(variant)/None expected, got {' '.join(t.text for t in toks)}")


def si_tables(repo):
    where = "src/si_prefixes.rs"
    toks = tokenize(open(os.path.join(repo, where), encoding="utf-8").read())
    i = find_seq(toks, ["enum", "SIPrefix"])
    if i < 0:
        raise Untranslatable(f"{where}: enum SIPrefix not found")
    # derives on the enum
    j = i
    while not is_p(toks[j], "{"):
        j += 1
    close = matching(toks, j)
    variants = []
    for v in split_commas(toks[j + 1:close]):
        v = [t for t in v]
        # strip attributes
        while v and is_p(v[0], "#"):
            _, _, e = split_attr(v, 0)
            v = v[e:]
        if not v:
            continue
        if len(v) >= 3 and v[0].kind == "ident" and is_p(v[1], "="):
            variants.append((v[0].text, signed_int(v[2:], where)))
        elif len(v) == 1 and v[0].kind == "ident":
            variants.append((v[0].text, None))
        else:
            raise Untranslatable(f"{where}: enum variant not understood: {' '.join(t.text for t in v)}")
    # implicit discriminants
    fixed = []
    prev = -1
    for name, d in variants:
        d = prev + 1 if d is None else d
        fixed.append((name, d))
        prev = d
    out = dict(variants=fixed)
    for fname in ("name", "abbr"):
        m, _ = fn_match_arms(toks, fname, where)
        if m is None:
            raise Untranslatable(f"{where}: fn {fname} is not a single match")
        arms = []
        for pat, ex in m[1]:
            if len(pat) == 1 and is_p(pat[0], "_"):
                raise Untranslatable(f"{where}: wildcard arm in fn {fname}")
            if len(ex) != 1 or ex[0].kind != "str":
                raise Untranslatable(f"{where}: string expected in fn {fname}")
            arms.append((self_variant(pat, where), ex[0].value))
        out[fname] = arms
    m, _ = fn_match_arms(toks, "from_abbr", where)
    if m is None:
        raise Untranslatable(f"{where}: fn from_abbr is not a single match")
    arms = []
    for pat, ex in m[1]:
        if len(pat) == 1 and pat[0].kind == "str":
            arms.append((pat[0].value, some_variant(ex, where)))
        elif len(pat) == 1 and pat[0].text == "_":
            arms.append((None, some_variant(ex, where)))
        else:
            raise Untranslatable(f"{where}: pattern in from_abbr not understood")
    out["from_abbr"] = arms
    m, _ = fn_match_arms(toks, "from_exp", where)
    if m is None:
        raise Untranslatable(f"{where}: fn from_exp is not a single match")
    arms = []
    for pat, ex in m[1]:
        if len(pat) == 1 and pat[0].text == "_":
            arms.append((None, some_variant(ex, where)))
        else:
            arms.append((signed_int(pat, where), some_variant(ex, where)))
    out["from_exp"] = arms
    _, body = fn_match_arms(toks, "exp", where)
    out["exp_body"] = " ".join(t.text for t in body)
    if out["exp_body"] != "* self as i8":
        raise Untranslatable(f"{where}: fn exp is not `*self as i8` but `{out['exp_body']}`")
    return out


def emit_si(si):
    def opt_text(v):
        return "none" if v is None else f"some {lean_text(v)}"
    o = ["-- GENERATED by tools/translate.py from src/si_prefixes.rs; do not edit.",
         "import QtyModel.Case", "set_option maxRecDepth 8192", "namespace Qty.Gen.SI", "open Qty", ""]
    o.append("/-- enum variants in declaration order with their discriminants (`exp()` is `*self as i8`) -/")
    o.append("def variants : List (Text × Int) := [")
    o.append(rows((f"({lean_text(n)}, ({d}))", n) for n, d in si["variants"]))
    o.append("]")
    for key, fn in (("name", "nameArms"), ("abbr", "abbrArms")):
        o.append(f"/-- arms of `fn {key}`: variant ↦ text -/")
        o.append(f"def {fn} : List (Text × Text) := [")
        o.append(rows((f"({lean_text(v)}, {lean_text(s)})", f"{v} => {s!r}") for v, s in si[key]))
        o.append("]")
    o.append("/-- arms of `fn from_abbr` in order: pattern (none = `_`) ↦ result -/")
    o.append("def fromAbbrArms : List (Option Text × Option Text) := [")
    o.append(rows((f"({opt_text(p)}, {opt_text(v)})", f"{p!r} => {v}") for p, v in si["from_abbr"]))
    o.append("]")
    o.append("/-- arms of `fn from_exp` in order: pattern (none = `_`) ↦ result -/")
    o.append("def fromExpArms : List (Option Int × Option Text) := [")
    o.append(rows((f"({'none' if p is None else f'some ({p})'}, {opt_text(v)})", f"{p} => {v}") for p, v in si["from_exp"]))
    o.append("]")
    o.append("end Qty.Gen.SI")
    return "\n".join(o) + "\n"


def amnt_lit(toks, where):
    # Amnt ! ( [-] lit )
    if len(toks) >= 5 and toks[0].text == "Amnt" and is_p(toks[1], "!") and is_p(toks[2], "("):
        inner = toks[3:-1]
        neg = False
        if inner and is_p(inner[0], "-"):
            neg = True
            inner = inner[1:]
        if len(inner) == 1 and inner[0].kind in ("int", "float") and not inner[0].value["suffix"]:
            l = dict(inner[0].value)
            l["neg"] = neg
            return l
    raise Untranslatable(f"{where}: Amnt!(literal) expected, got {' '.join(t.text for t in toks)}")


def temp_table(repo):
    where = "src/temperature.rs"
    p = os.path.join(repo, where)
    if not os.path.exists(p):
        return None
    toks = tokenize(open(p, encoding="utf-8").read())
    i = find_seq(toks, ["mappings", ":"])
    if i < 0:
        raise Untranslatable(f"{where}: mappings not found")
    j = i + 2
    if not is_p(toks[j], "["):
        raise Untranslatable(f"{where}: mappings is not an array literal")
    close = matching(toks, j)
    rows = []
    for r in split_commas(toks[j + 1:close]):
        if not (is_p(r[0], "(") and is_p(r[-1], ")")):
            raise Untranslatable(f"{where}: tuple expected in mappings")
        parts = split_commas(r[1:-1])
        if len(parts) != 4 or len(parts[0]) != 1 or len(parts[1]) != 1:
            raise Untranslatable(f"{where}: 4-tuple (from, to, factor, offset) expected")
        rows.append((parts[0][0].text, parts[1][0].text, amnt_lit(parts[2], where), amnt_lit(parts[3], where)))
    # declared size
    k = find_seq(toks, ["ConversionTable", "<", "Temperature", ","])
    size = toks[k + 4].value["digits"] if k >= 0 and toks[k + 4].kind == "int" else None
    return dict(rows=rows, size=size)


def emit_temp(tt):
    o = ["-- GENERATED by tools/translate.py from src/temperature.rs; do not edit.",
         "import QtyModel.Registry", "namespace Qty.Gen.Temp", "open Qty", ""]
    o.append("/-- rows of `TEMPERATURE_CONVERTER.mappings`: (from const, to const, factor, offset) -/")
    o.append("def rows : List (Text × Text × Lit × Lit) := [")
    o.append(rows(
        (f"({lean_text(a)}, {lean_text(b)}, {lean_lit(f)}, {lean_lit(off)})",
         f"{a} -> {b}: *{f['text']} + {'-' if off.get('neg') else ''}{off['text']}")
        for a, b, f, off in tt["rows"]))
    o.append("]")
    o.append("end Qty.Gen.Temp")
    return "\n".join(o) + "\n"


# ---------------------------------------------------------------- features

def parse_features(repo):
    import tomllib
    with open(os.path.join(repo, "Cargo.toml"), "rb") as f:
        cargo = tomllib.load(f)
    feats = cargo.get("features", {})
    deps = cargo.get("dependencies", {})
    optional = [k for k, v in deps.items() if isinstance(v, dict) and v.get("optional")]
    return feats, optional


def cfg_expr(toks):
    """cfg token list -> nested expression: ('feature', name) | ('all', [..]) | ('any', [..]) | ('not', e) | ('kv', key, value)"""
    if len(toks) == 3 and toks[0].kind == "ident" and is_p(toks[1], "=") and toks[2].kind == "str":
        if toks[0].text == "feature":
            return ("feature", toks[2].value)
        return ("kv", toks[0].text, toks[2].value)
    if len(toks) >= 3 and toks[0].kind == "ident" and is_p(toks[1], "(") and is_p(toks[-1], ")"):
        args = [cfg_expr(a) for a in split_commas(toks[2:-1])]
        if toks[0].text == "not" and len(args) == 1:
            return ("not", args[0])
        if toks[0].text in ("all", "any"):
            return (toks[0].text, args)
    if len(toks) == 1 and toks[0].kind == "ident":
        return ("flag", toks[0].text)
    raise Untranslatable("cfg expression not understood: " + " ".join(t.text for t in toks))


def lean_cfg(e):
    if e[0] == "feature":
        return f"(.feature {lean_text(e[1])})"
    if e[0] == "kv":
        return f"(.kv {lean_text(e[1])} {lean_text(e[2])})"
    if e[0] == "flag":
        return f"(.flag {lean_text(e[1])})"
    if e[0] == "not":
        return f"(.not {lean_cfg(e[1])})"
    return f"(.{e[0]} [" + ", ".join(lean_cfg(a) for a in e[1]) + "])"


def item_extent(toks, k):
    """toks[k] starts an item (after its attributes) -> index just past the item: the first `;`
    outside parentheses / brackets, or the brace block that starts first"""
    depth = 0
    j = k
    while j < len(toks):
        t = toks[j]
        if is_p(t, "(") or is_p(t, "["):
            depth += 1
        elif is_p(t, ")") or is_p(t, "]"):
            depth -= 1
        elif depth == 0 and is_p(t, ";"):
            return j + 1
        elif depth == 0 and is_p(t, "{"):
            return matching(toks, j) + 1
        j += 1
    return len(toks)


def cfg_features(e, where):
    """a cfg expression that is a conjunction of features -> list of feature names"""
    if e[0] == "feature":
        return [e[1]]
    if e[0] == "all":
        out = []
        for a in e[1]:
            out += cfg_features(a, where)
        return out
    raise Untranslatable(f"{where}: cfg on an item that refers to crate modules is not a conjunction of features: {e!r}")


def crate_refs(toks, conds, out, where):
    """every `crate::<ident>` path (in `use crate::{a::.., b::..}` every first segment) in the
    token list, with the features the enclosing `#[cfg(..)]` items require; `#[cfg(test)]`
    items are not part of the library build and are skipped"""
    i = 0
    while i < len(toks):
        t = toks[i]
        if is_p(t, "#") and i + 1 < len(toks) and is_p(toks[i + 1], "["):
            # the attributes of one item
            k = i
            cfgs = []
            while k + 1 < len(toks) and is_p(toks[k], "#") and is_p(toks[k + 1], "["):
                path_, inner, k = split_attr(toks, k)
                if path_ == ["cfg"] and inner is not None:
                    cfgs.append(inner)
            if not cfgs:
                i = k
                continue
            end = item_extent(toks, k)
            if any([x.text for x in c] == ["test"] for c in cfgs):
                i = end
                continue
            extra = []
            body = toks[k:end]
            has_ref = any(body[x].text == "crate" and x + 2 < len(body) and is_p(body[x + 1], ":")
                          for x in range(len(body)) if body[x].kind == "ident")
            if has_ref:
                for c in cfgs:
                    extra += cfg_features(cfg_expr(c), where)
            crate_refs(body, conds + extra, out, where)
            i = end
            continue
        if t.kind == "ident" and t.text == "crate" and i + 3 < len(toks) \
                and is_p(toks[i + 1], ":") and is_p(toks[i + 2], ":"):
            j = i + 3
            if is_p(toks[j], "{"):
                close = matching(toks, j)
                for part in split_commas(toks[j + 1:close]):
                    if part and part[0].kind == "ident":
                        out.append((list(conds), part[0].text))
                i = close + 1
                continue
            if toks[j].kind == "ident":
                out.append((list(conds), toks[j].text))
            i = j + 1
            continue
        i += 1


def crate_imports(path):
    """(required features, name) for every `crate::<name>` reference of a file"""
    toks = tokenize(open(path, encoding="utf-8").read())
    out = []
    crate_refs(toks, [], out, os.path.basename(path))
    seen = []
    for e in out:
        if e not in seen:
            seen.append(e)
    return seen


def cfg_sites(toks, fname, out):
    """every place where conditional compilation enters the LIBRARY build of one file: `#[cfg(P)] item`,
    `#[cfg_attr(P, payload)]` / `#![cfg_attr(P, payload)]`, `cfg!(P)`.  `#[cfg(test)]` items are not part of
    the library and are skipped whole.  -> (file, what, P) with what = `mod` / `use` (the gated item only
    declares a module or re-exports names), `attr:<payload>` (cfg_attr), `macro` (cfg!), `code` (anything
    else: a function, impl, statement, expression, field ...)"""
    i = 0
    while i < len(toks):
        t = toks[i]
        if is_p(t, "#") and i + 1 < len(toks) and (is_p(toks[i + 1], "[") or
                                                    (is_p(toks[i + 1], "!") and i + 2 < len(toks) and is_p(toks[i + 2], "["))):
            k = i
            cfgs = []
            while k + 1 < len(toks) and is_p(toks[k], "#") and (is_p(toks[k + 1], "[") or is_p(toks[k + 1], "!")):
                b = k + 1 if is_p(toks[k + 1], "[") else k + 2
                if not (b < len(toks) and is_p(toks[b], "[")):
                    break
                path_, inner, k2 = split_attr(toks, b - 1)
                if path_ == ["cfg"] and inner is not None:
                    cfgs.append(inner)
                elif path_ == ["cfg_attr"] and inner is not None:
                    parts = split_commas(inner)
                    payload = " ".join(x.text for part in parts[1:] for x in part)
                    out.append((fname, "attr:" + payload, cfg_expr(parts[0])))
                k = k2
            if not cfgs:
                i = k
                continue
            end = item_extent(toks, k)
            if any([x.text for x in c] == ["test"] for c in cfgs):
                i = end
                continue
            body = toks[k:end]
            words = [x.text for x in body[:3]]
            if words[:1] == ["pub"]:
                words = words[1:]
            what = "mod" if words[:1] == ["mod"] and is_p(body[-1], ";") else \
                   "use" if words[:1] == ["use"] else "code"
            for c in cfgs:
                out.append((fname, what, cfg_expr(c)))
            cfg_sites(body, fname, out)
            i = end
            continue
        if t.kind == "ident" and t.text == "cfg" and i + 2 < len(toks) and is_p(toks[i + 1], "!") and is_p(toks[i + 2], "("):
            close = matching(toks, i + 2)
            out.append((fname, "macro", cfg_expr(toks[i + 3:close])))
            i = close + 1
            continue
        i += 1


def cfg_inventory(repo):
    out = []
    files = []
    for d in ("src", "qty-macros/src"):
        full = os.path.join(repo, d)
        if not os.path.isdir(full):
            raise Untranslatable(f"{d}: directory not found")
        for n in sorted(os.listdir(full)):
            if n.endswith(".rs"):
                files.append((d + "/" + n, os.path.join(full, n)))
    for rel, path in files:
        cfg_sites(tokenize(open(path, encoding="utf-8").read()), rel, out)
    return out


def features_tables(repo):
    feats, optional = parse_features(repo)
    mods = catalogue_modules(repo)
    gates = []
    for m in mods:
        gates.append((m["module"], cfg_expr(m["cfg_toks"])))
    # cfg of the `pub use amnt_*::{AmountT..}` lines
    src = open(os.path.join(repo, "src/lib.rs"), encoding="utf-8").read()
    toks = tokenize(src)
    amount_cfgs = []
    i = 0
    while i < len(toks):
        if is_p(toks[i], "#") and is_p(toks[i + 1], "["):
            path, inner, j = split_attr(toks, i)
            if path == ["cfg"] and inner is not None and toks[j].text == "pub" and toks[j + 1].text == "use":
                k = j
                while not is_p(toks[k], ";"):
                    k += 1
                names = [t.text for t in toks[j:k]]
                if "AmountT" in names:
                    amount_cfgs.append((toks[j + 2].text, cfg_expr(inner)))
            i = j
            continue
        i += 1
    # plain (ungated) modules
    plain = []
    for k in range(len(toks) - 2):
        if toks[k].text == "mod" and toks[k + 1].kind == "ident" and is_p(toks[k + 2], ";"):
            name = toks[k + 1].text
            if all(name != g[0] for g in gates):
                plain.append(name)
    imports = []
    for name, _ in gates:
        p = os.path.join(repo, "src", name + ".rs")
        if os.path.exists(p):
            known = {g[0] for g in gates} | set(plain)
            # names that are not modules (items re-exported at the crate root) are always present
            imports.append((name, [(c, m) for c, m in crate_imports(p) if m in known or m[:1].islower()]))
    # non-module names importable from the crate root regardless of features
    return dict(features=feats, optional=optional, gates=gates, amount_cfgs=amount_cfgs,
                plain_modules=plain, imports=imports, cfg_sites=cfg_inventory(repo))


def emit_features(ft):
    o = ["-- GENERATED by tools/translate.py from Cargo.toml, src/lib.rs and the module `use` lists; do not edit.",
         "import QtyModel.Features", "set_option maxRecDepth 8192", "namespace Qty.Gen.Features", "open Qty", ""]
    o.append("/-- `[features]` of Cargo.toml resolved the way cargo reads an entry: a plain name enables that")
    o.append("feature; `dep:x` enables the optional dependency `x` only; `x/f` enables the optional dependency")
    o.append("`x` AND (no `dep:x` being used for it) its implicit feature `x`; the weak form `x?/f` enables nothing -/")
    o.append("def featuresResolved : List (Text × List Text) := [")
    def resolve(entries):
        out = []
        for e in entries:
            if e.startswith("dep:"):
                continue
            if "?/" in e:
                continue
            if "/" in e:
                d = e.split("/")[0]
                if d in ft["optional"]:
                    out.append(d)
                continue
            out.append(e)
        return out
    resolved = {k: resolve(v) for k, v in ft["features"].items()}
    for d in ft["optional"]:
        if d not in resolved and not any(("dep:" + d) in v for v in ft["features"].values()):
            resolved[d] = []          # implicit feature of an optional dependency
    o.append(rows((f"({lean_text(k)}, [" + ", ".join(lean_text(x) for x in v) + "])", f"{k} -> {v}")
                  for k, v in resolved.items()))
    o.append("]")
    o.append("/-- `[features]` of Cargo.toml: feature ↦ what it enables (as written) -/")
    o.append("def features : List (Text × List Text) := [")
    o.append(rows((f"({lean_text(k)}, [" + ", ".join(lean_text(x) for x in v) + "])", f"{k} = {v}")
                  for k, v in ft["features"].items()))
    o.append("]")
    o.append("/-- optional dependencies (implicit features / `dep:` targets) -/")
    o.append("def optionalDeps : List Text := [" + ", ".join(lean_text(x) for x in ft["optional"]) + "]")
    o.append("/-- `#[cfg(...)] pub mod m;` gates of src/lib.rs -/")
    o.append("def gates : List (Text × Cfg) := [")
    o.append(rows((f"({lean_text(m)}, {lean_cfg(e)})", m) for m, e in ft["gates"]))
    o.append("]")
    o.append("/-- cfg of each `pub use amnt_*::{AmountT, ..}` -/")
    o.append("def amountCfgs : List (Text × Cfg) := [")
    o.append(rows((f"({lean_text(m)}, {lean_cfg(e)})", m) for m, e in ft["amount_cfgs"]))
    o.append("]")
    o.append("/-- modules compiled unconditionally -/")
    o.append("def plainModules : List Text := [" + ", ".join(lean_text(x) for x in ft["plain_modules"]) + "]")
    o.append("/-- `crate::<module>` references of each gated module: (features the enclosing `#[cfg]` items")
    o.append("require, module referred to) -/")
    o.append("def imports : List (Text × List (List Text × Text)) := [")
    o.append(rows((f"({lean_text(m)}, [" + ", ".join(
        "([" + ", ".join(lean_text(c) for c in cs) + "], " + lean_text(x) + ")" for cs, x in v) + "])",
        f"{m} uses {v}") for m, v in ft["imports"]))
    o.append("]")
    o.append("/-- every place where conditional compilation enters the library build (`src/`, `qty-macros/src/`,")
    o.append("`#[cfg(test)]` items excluded): (file, what is gated, predicate); `mod`/`use` = the gated item only")
    o.append("declares a module or re-exports names, `attr:<payload>` = `cfg_attr`, `macro` = `cfg!`, `code` = anything else -/")
    o.append("def cfgSites : List (Text × Text × Cfg) := [")
    o.append(rows((f"({lean_text(f)}, {lean_text(w)}, {lean_cfg(e)})", f"{f}: {w}") for f, w, e in ft["cfg_sites"]))
    o.append("]")
    o.append("end Qty.Gen.Features")
    return "\n".join(o) + "\n"


def amnt_macro(repo):
    """shape of Amnt! and the AMNT_ZERO/ONE constants in both back-ends"""
    out = {}
    for name, want in (("amnt_f64", "$ lit as f64"), ("amnt_dec", "Dec ! ( $ lit )")):
        where = f"src/{name}.rs"
        toks = tokenize(open(os.path.join(repo, where), encoding="utf-8").read())
        i = find_seq(toks, ["macro_rules", "!", "Amnt"])
        if i < 0:
            raise Untranslatable(f"{where}: macro Amnt not found")
        j = i + 3
        close = matching(toks, j)
        body = toks[j + 1:close]
        # ( $lit:literal ) => { BODY } ;
        k = find_seq(body, ["=", ">"])
        b = k + 2
        e = matching(body, b)
        text = " ".join(t.text for t in body[b + 1:e])
        pat = " ".join(t.text for t in body[:k])
        if text != want or pat != "( $ lit : literal )":
            raise Untranslatable(f"{where}: Amnt! is `{pat} => {text}`, expected `{want}`")
        consts = {}
        for cname in ("AMNT_ZERO", "AMNT_ONE"):
            c = find_seq(toks, ["const", cname])
            s = c
            while not is_p(toks[s], "="):
                s += 1
            e2 = s
            while not is_p(toks[e2], ";"):
                e2 += 1
            consts[cname] = " ".join(t.text for t in toks[s + 1:e2])
        want_consts = ({"AMNT_ZERO": "0.", "AMNT_ONE": "1."} if name == "amnt_f64"
                       else {"AMNT_ZERO": "Decimal : : ZERO", "AMNT_ONE": "Decimal : : ONE"})
        if consts != want_consts:
            raise Untranslatable(f"{where}: AMNT constants are {consts}, expected {want_consts}")
        out[name] = dict(body=text, consts=consts)
    return out


def run(repo, verif, gen, tables, write_if_changed, piece=None):
    """`piece(name, fn)` evaluates fn(root) on the repository and, when the source cannot be read,
    on the snapshot under /verif/fallback (recording the piece as tied by dump only)"""
    if piece is None:
        piece = lambda name, fn: fn(repo)  # noqa: E731
    changed = []
    si = piece("si", si_tables)
    tables["si"] = si
    if write_if_changed(os.path.join(gen, "SI.lean"), emit_si(si)):
        changed.append("SI")
    tt = piece("temp", temp_table)
    if tt is not None:
        tables["temp"] = dict(rows=[(a, b, f, o) for a, b, f, o in tt["rows"]], size=tt["size"])
        if write_if_changed(os.path.join(gen, "TempTable.lean"), emit_temp(tt)):
            changed.append("TempTable")
    ft = piece("features", features_tables)
    tables["features"] = dict(features=ft["features"], optional=ft["optional"],
                              gates=[(m, repr(e)) for m, e in ft["gates"]],
                              imports=ft["imports"], plain_modules=ft["plain_modules"])
    if write_if_changed(os.path.join(gen, "Features.lean"), emit_features(ft)):
        changed.append("Features")
    tables["amnt"] = piece("amnt", amnt_macro)
    return changed
