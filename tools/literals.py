#!/usr/bin/env python3
"""Numeric literals of the algorithm sources as a dictionary for the input generators.

A change that behaves differently only beyond some magnitude, at one particular value or inside a narrow
range has to spell that value out in the code.  Every numeric literal (integers, floats, the arguments of
`Amnt!(..)`, also inside the macro's `quote!` templates) of the files that hold algorithms — not the unit
tables — is collected; the ones that do NOT occur in the snapshot `/verif/fallback` (the tree the model was
verified against) are written to `work/code_literals.json`, and `world.amounts()` turns each into amount
classes (the value, its neighbours, its negative, half, double, and the value divided / multiplied by the
scale literals of the catalogue are left to the unit enumeration).  On the unchanged tree the list is empty.
This is a search heuristic for the failing input, never a verdict."""
import json
import os
import sys
from fractions import Fraction

sys.path.insert(0, os.path.dirname(os.path.abspath(__file__)))
from rusttok import tokenize, lit_value, parse_number  # noqa: E402

FILES = ["src/lib.rs", "src/rate.rs", "src/converter.rs", "src/amnt_f64.rs", "src/amnt_dec.rs", "src/prelude.rs",
         "qty-macros/src/quantity_attr_helper.rs", "qty-macros/src/lib.rs"]


def literals_of(root):
    out = set()
    for f in FILES:
        p = os.path.join(root, f)
        if not os.path.isfile(p):
            continue
        try:
            toks = tokenize(open(p, encoding="utf-8").read())
        except Exception:
            continue
        for t in toks:
            if t.kind in ("int", "float"):
                try:
                    v = lit_value(t.value) if isinstance(t.value, dict) else lit_value(parse_number(t.text)[1])
                except Exception:
                    continue
                out.add(v)
            elif t.kind == "ident" and t.text in ("EPSILON", "MAX", "MIN", "MIN_POSITIVE"):
                out.add({"EPSILON": Fraction(1, 2 ** 52), "MAX": Fraction((2 ** 53 - 1) * 2 ** 971),
                         "MIN": -Fraction((2 ** 53 - 1) * 2 ** 971), "MIN_POSITIVE": Fraction(1, 2 ** 1022)}[t.text])
    return out


def new_literals(repo, verif):
    base = literals_of(os.path.join(verif, "fallback"))
    cur = literals_of(repo)
    new = sorted(cur - base)
    return [v for v in new if v != 0][:40]


def write(repo, verif):
    new = new_literals(repo, verif)
    os.makedirs(os.path.join(verif, "work"), exist_ok=True)
    with open(os.path.join(verif, "work", "code_literals.json"), "w") as f:
        json.dump([[v.numerator, v.denominator] for v in new], f)
    return new


if __name__ == "__main__":
    print(write(sys.argv[1] if len(sys.argv) > 1 else "/repo", os.path.dirname(os.path.dirname(os.path.abspath(__file__)))))
