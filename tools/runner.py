"""Decision logic of one property check (DESIGN.md §2.1, §2.8-2.10)."""
import hashlib
import importlib
import json
import os
import re
import sys
import time

import pipeline as pl
from pipeline import Broken, VERIF
from world import World, Rng

ALLOWED_AXIOMS = {"propext", "Classical.choice", "Quot.sound"}
FORBIDDEN = re.compile(r"\b(sorry|admit|native_decide|bv_decide|implemented_by|unsafe )|^axiom |maxHeartbeats 0", re.M)


def load_known():
    p = os.path.join(VERIF, "known_findings.json")
    if not os.path.exists(p):
        return []
    return json.load(open(p, encoding="utf-8"))["findings"]


def strip_comments(src):
    # remove /- ... -/ (nested) and -- line comments
    out = []
    i = 0
    depth = 0
    n = len(src)
    while i < n:
        if src.startswith("/-", i):
            depth += 1
            i += 2
        elif depth and src.startswith("-/", i):
            depth -= 1
            i += 2
        elif depth:
            i += 1
        elif src.startswith("--", i):
            j = src.find("\n", i)
            i = n if j < 0 else j
        else:
            out.append(src[i])
            i += 1
    return "".join(out)


def lean_sources_for(module):
    """transitive local imports of a module (files under lean/)"""
    seen = {}
    todo = [module]
    while todo:
        m = todo.pop()
        if m in seen:
            continue
        p = os.path.join(pl.LEAN, m.replace(".", "/") + ".lean")
        if not os.path.exists(p):
            continue
        src = open(p, encoding="utf-8").read()
        seen[m] = src
        for im in re.findall(r"^import\s+(QtyModel\.\S+)", src, re.M):
            todo.append(im)
    return seen


def theorems_of(module):
    p = os.path.join(pl.LEAN, module.replace(".", "/") + ".lean")
    src = strip_comments(open(p, encoding="utf-8").read())
    ns = []
    names = []
    examples = 0
    for line in src.splitlines():
        m = re.match(r"^namespace\s+(\S+)", line)
        if m:
            ns.append(m.group(1))
            continue
        m = re.match(r"^end\s+(\S+)", line)
        if m and ns and ns[-1] == m.group(1):
            ns.pop()
            continue
        m = re.match(r"^(?:@\[[^\]]*\]\s*)?(?:protected\s+|private\s+)?theorem\s+(\S+)", line)
        if m:
            names.append(".".join(ns + [m.group(1)]))
        if re.match(r"^example\b", line):
            examples += 1
    return names, examples


def prove(pid, modules, tier="quick"):
    """build the property theorems and audit their axioms.
    returns (obligations, discharged, theorem_names, broken list, axioms used)"""
    broken = []
    names = []
    examples = 0
    for m in modules:
        ok, out = pl.lake_build([m])
        if not ok:
            # name the theorem(s) that fail
            errs = re.findall(r"error: ([^\n]*)", out)
            broken.append(Broken(f"thm.{m}", out[-6000:]))
            continue
        n, e = theorems_of(m)
        names += n
        examples += e
        for mod, src in lean_sources_for(m).items():
            bad = FORBIDDEN.search(strip_comments(src))
            if bad:
                broken.append(Broken(f"audit.{mod}", f"forbidden construct `{bad.group(0).strip()}`"))
    axioms = {}
    if names and not broken:
        os.makedirs(pl.WORK, exist_ok=True)
        ap = os.path.join(pl.WORK, f"audit_{pid}.lean")
        with open(ap, "w", encoding="utf-8") as f:
            for m in modules:
                f.write(f"import {m}\n")
            for n in names:
                f.write(f"#print axioms {n}\n")
        rc, out = pl.sh(["lake", "env", "lean", ap], cwd=pl.LEAN, timeout=3600)
        if rc != 0:
            broken.append(Broken(f"audit.{pid}", out[-3000:]))
        else:
            for m in re.finditer(r"'(\S+)' depends on axioms: \[([^\]]*)\]", out):
                axioms[m.group(1)] = [a.strip() for a in m.group(2).replace("\n", " ").split(",") if a.strip()]
            for m in re.finditer(r"'(\S+)' does not depend on any axioms", out):
                axioms[m.group(1)] = []
            for n in names:
                if n not in axioms:
                    broken.append(Broken(f"audit.{n}", "no axiom report"))
                else:
                    extra = set(axioms[n]) - ALLOWED_AXIOMS
                    if extra:
                        broken.append(Broken(f"audit.{n}", f"depends on {sorted(extra)}"))
    if tier == "thorough" and not broken:
        # independent re-check of the compiled proofs by the toolchain's external checker
        for m in modules:
            rc, out = pl.sh(["lake", "env", "leanchecker", m], cwd=pl.LEAN, timeout=3600)
            if rc != 0:
                broken.append(Broken(f"leanchecker.{m}", out[-3000:]))
    obligations = len(names) + examples
    discharged = obligations if not broken else 0
    return obligations, discharged, names, broken, axioms


class Case:
    __slots__ = ("be", "label", "line", "impl", "model", "verdict")

    def __init__(self, be, label, line, impl, model, verdict):
        self.be, self.label, self.line, self.impl, self.model, self.verdict = be, label, line, impl, model, verdict

    def as_dict(self):
        return dict(backend=self.be, cls=self.label, op=self.line, impl=self.impl, model=self.model, oracle=self.verdict)


_DEC_TOKEN = re.compile(r"(?:^| )d(-?\d+)/(\d+)(?= |$)")


def correspond(prop, tier, seed, backends):
    """generate, execute on both sides, compare. returns (cases, hist)"""
    cases = []
    hist = {}
    dumps = {be: open(os.path.join(pl.WORK, f"dump_{be}.txt"), encoding="utf-8").read() for be in backends}
    for be in backends:
        w = World(be, dumps[be])
        rng = Rng(seed * 1000003 + (1 if be == "f64" else 2))
        ops = []
        corpus = os.path.join(VERIF, "corpus", f"{prop.ID}_{be}.txt")
        if os.path.exists(corpus):
            for l in open(corpus, encoding="utf-8"):
                l = l.rstrip("\n")
                if l and not l.startswith("#"):
                    ops.append(("corpus", l))
        ops += prop.gen(w, rng, tier)
        # the same operations once more in a seeded random order: state that survives from one call to the next
        # (a cache in a `static`, a thread-local mode) makes the result depend on what ran before, and the
        # generators emit their lines grouped by type and operation
        if getattr(prop, "HISTORY", True) and len(ops) > 1:
            sample = [(lab, l) for lab, l in ops if lab != "corpus"]
            if len(sample) > 4000:
                sample = [sample[rng.below(len(sample))] for _ in range(4000)]
            ops += [("hist:" + lab.split(":")[0], l) for lab, l in rng.shuffle(sample)]
        if be == "dec":
            # amounts a `Decimal` cannot hold (coefficient outside i128, more than 18 fractional digits) are no
            # inputs of the implementation: a generator that scales a boundary amount may produce them
            ops = [(lab, l) for lab, l in ops if all(abs(int(c)) < 2 ** 127 and int(n) <= 18
                                                    for c, n in _DEC_TOKEN.findall(l))]
        res = pl.run_ops(be, [l for _, l in ops], f"{prop.ID}_{tier}")
        judge = getattr(prop, "judge", None)
        for (lab, _), (line, io, mo, v) in zip(ops, res):
            c = Case(be, lab, line, io, mo, v)
            if judge:
                c.verdict = judge(c)
            cases.append(c)
            hist[lab] = hist.get(lab, 0) + 1
    return cases, hist


def known_match(pid, case, known):
    for k in known:
        if k.get("property") != pid or k.get("status") != "known":
            continue
        sig = k.get("signature", {})
        if "backend" in sig and sig["backend"] != case.be:
            continue
        if "op_regex" in sig and not re.search(sig["op_regex"], case.line):
            continue
        if "oracle_regex" in sig and not re.search(sig["oracle_regex"], case.verdict):
            continue
        if sig.get("requires_model_agreement", True) and case.impl != case.model:
            continue
        return k
    return None


def write_replay(pid, payload):
    d = os.path.join(VERIF, "replays")
    os.makedirs(d, exist_ok=True)
    try:
        notes = json.load(open(os.path.join(VERIF, "work", "tables.json"), encoding="utf-8")).get("algos_not_translated")
        if notes and payload.get("broken_obligations"):
            payload["function_bodies_not_translated"] = notes
    except (OSError, ValueError):
        pass
    h = hashlib.sha1(json.dumps(payload, sort_keys=True, default=str).encode()).hexdigest()[:10]
    p = os.path.join(d, f"{pid}-{h}.json")
    with open(p, "w", encoding="utf-8") as f:
        json.dump(payload, f, indent=1, ensure_ascii=False, default=str)
    return p


def write_evidence(pid, ev):
    d = os.path.join(VERIF, "evidence")
    os.makedirs(d, exist_ok=True)
    with open(os.path.join(d, f"{pid}.json"), "w", encoding="utf-8") as f:
        json.dump(ev, f, indent=1, ensure_ascii=False, default=str)


TRUSTED = [
    "Lean 4.33 kernel; axioms limited to propext, Classical.choice, Quot.sound (audited per theorem with #print axioms); no sorry/admit/native_decide/bv_decide/own axioms",
    "tools/translate.py (tokenizer-based translator from /repo sources to Lean tables), regenerated on every run",
    "correspondence harness (Rust, path dependency on the working tree) + Lean driver + line protocol; bit-exact comparison",
    "modelled, not verified: f64 arithmetic of the CPU (model: IEEE-754 RNE), fpdec 0.11 internals, rustc literal conversion",
]


# which translated pieces (tools/translate.py `piece`) a property rests on.  A piece whose source the
# translator cannot read is translated from the snapshot under /verif/fallback instead; the property
# then needs the piece to be tied to the code by the exhaustive registry dump (`dump_tie`).
CAT = ("catalogue.", "astro", "amnt", "modules")
PIECE_DEPS = {
    "C01": CAT, "C02": CAT, "C03": CAT, "C04": CAT, "C05": CAT, "C06": ("catalogue.", "astro", "modules"),
    "C07": CAT + ("si",), "C08": CAT, "C09": CAT, "C10": CAT, "C11": ("amnt",), "C12": (),
    "C13": CAT, "C14": ("temp", "catalogue.temperature", "amnt"), "C15": CAT, "C16": ("si",),
    "C17": CAT, "C18": CAT + ("temp",), "C19": ("features", "modules", "catalogue."),
}


def fallback_pieces(pid):
    """pieces translated from the snapshot (their source could not be read) that `pid` rests on"""
    try:
        fb = json.load(open(os.path.join(VERIF, "work", "tables.json"), encoding="utf-8")).get("fallback", {})
    except (OSError, ValueError):
        return {}
    deps = PIECE_DEPS.get(pid, CAT)
    return {p: r for p, r in fb.items() if any(p == d or (d.endswith(".") and p.startswith(d)) for d in deps)}


def dump_tie(pieces, backends, seed, pid=""):
    """For every piece translated from the snapshot: the exhaustive dump that ties the snapshot's table to
    the compiled crate (every unit of every type of the piece: identifier, name, symbol, prefix, scale
    bits, constant; all prefixes / exponents / abbreviations; the rows of the temperature table).
    Returns {piece: [Case]}; a piece without such a dump maps to None."""
    tables = json.load(open(os.path.join(VERIF, "work", "tables.json"), encoding="utf-8"))
    module_of = {it["name"]: it["module"] for it in tables.get("catalogue", [])}
    out = {}
    for piece in pieces:
        out[piece] = None if piece in ("modules", "features") else []
    for be in backends:
        w = World(be, open(os.path.join(pl.WORK, f"dump_{be}.txt"), encoding="utf-8").read())
        for piece in pieces:
            if out[piece] is None:
                continue
            if piece.startswith("catalogue."):
                ls = [f"reg {t['name']}" for t in w.types if module_of.get(t["name"]) == piece.split(".", 1)[1]]
            elif piece == "astro":
                ls = [f"reg {t['name']}" for t in w.types if t["name"].startswith("A:")]
            elif piece == "amnt":
                ls = [f"reg {t['name']}" for t in w.types]
            elif piece == "si":
                # the variants with name, abbreviation and exponent; the two lookup functions only matter to C16
                c16 = importlib.import_module("props.c16")
                ls = ([l for _, l in c16.gen(w, Rng(seed), "quick")] if pid == "C16" else ["si iter"]) if be == "f64" else []
            elif piece == "temp":
                ls = ["temp rows"]
            else:
                ls = []
            if ls:
                for (line, io, mo, v) in pl.run_ops(be, ls, f"tie_{piece.replace('.', '_')}"):
                    # the verdict of a dump line is not the property's oracle: only (dis)agreement counts here
                    out[piece].append(Case(be, "tie:" + piece, line, io, mo, "tie"))
    return out


def run(pid, tier, seed, replay=None):
    t_start = time.time()
    prop = importlib.import_module(f"props.{pid.lower()}")
    known = load_known()
    broken = []
    lines_out = []
    backends = getattr(prop, "BACKENDS", ("f64", "dec"))
    timings = {}
    fatal = None
    try:
        timings = pl.prepare(backends, getattr(prop, "HARNESS_GROUPS", pl.ALL_GROUPS))
    except Broken as b:
        fatal = b
        broken.append(b)
    # proofs
    obligations = discharged = 0
    thm_names, axioms = [], {}
    if not (fatal and fatal.obligation in ("translate", "model.build")):
        t0 = time.time()
        obligations, discharged, thm_names, b2, axioms = prove(pid, prop.LEAN_MODULES, tier)
        broken += b2
        timings["prove"] = time.time() - t0
    cases, hist = [], {}
    extra_cov = {}
    extra_fail = []
    if fatal is None:
        t0 = time.time()
        try:
            if replay:
                rp = json.load(open(replay, encoding="utf-8"))
                rc = [c for c in rp.get("cases", []) if isinstance(c, dict) and "op" in c and "backend" in c]
                if not rc:
                    # a generated-program / configuration failure: re-run the whole check on the current tree
                    print("replay: no single operation recorded; re-running the check")
                    cases, hist = correspond(prop, tier, seed, backends)
                    if hasattr(prop, "extra"):
                        extra_cov, extra_fail, extra_broken = prop.extra(tier, seed)
                        broken += extra_broken
                for be in backends:
                    ls = [c["op"] for c in rc if c["backend"] == be]
                    if ls:
                        for (line, io, mo, v) in pl.run_ops(be, ls, f"{pid}_replay"):
                            cases.append(Case(be, "replay", line, io, mo, v))
                            print(f"replay {be}: {line}\n  impl  : {io}\n  model : {mo}\n  oracle: {v}")
            else:
                # code the model transcribes has changed since the model was written: look deeper
                import fingerprint
                touched, touched_names = fingerprint.changed_properties(pl.REPO, VERIF)
                gen_tier = "thorough" if (pid in touched and tier == "quick") else tier
                if gen_tier != tier:
                    timings["escalated_because_changed"] = touched_names
                cases, hist = correspond(prop, gen_tier, seed, backends)
                if hasattr(prop, "extra"):
                    extra_cov, extra_fail, extra_broken = prop.extra(gen_tier, seed)
                    broken += extra_broken
                if getattr(prop, "MACRO_PARTS", None):
                    # the macro's own code run as a library on generated definitions vs the model of the macro
                    import macrofront
                    mcov, mfail, mbroken = macrofront.for_property(prop.MACRO_PARTS, gen_tier, seed)
                    extra_cov = dict(extra_cov, **mcov)
                    extra_cov["evaluations"] = extra_cov.get("evaluations", 0) + mcov["macro_level_definitions"]
                    extra_cov["distinct_nontrivial"] = extra_cov.get("distinct_nontrivial", 0) + mcov["macro_level_definitions"]
                    extra_fail = list(extra_fail) + mfail
                    broken += mbroken
        except Broken as b:
            broken.append(b)
        timings["correspond"] = time.time() - t0
    elif fatal.obligation.startswith("harness.build") and not replay:
        # the shared harness does not build (e.g. a synthetic definition is no longer accepted): the parts of
        # the check that do not need it still look for a failing input — generated programs compiled on
        # their own, and the macro's code run as a library against the model of the macro
        t0 = time.time()
        try:
            if hasattr(prop, "extra") and not getattr(prop, "EXTRA_NEEDS_HARNESS", False):
                extra_cov, extra_fail, extra_broken = prop.extra(tier, seed)
                broken += extra_broken
            if getattr(prop, "MACRO_PARTS", None):
                import macrofront
                mcov, mfail, mbroken = macrofront.for_property(prop.MACRO_PARTS, tier, seed)
                extra_cov = dict(extra_cov, **mcov)
                extra_cov["evaluations"] = extra_cov.get("evaluations", 0) + mcov["macro_level_definitions"]
                extra_cov["distinct_nontrivial"] = extra_cov.get("distinct_nontrivial", 0) + mcov["macro_level_definitions"]
                extra_fail = list(extra_fail) + mfail
                broken += mbroken
        except Broken as b:
            broken.append(b)
        timings["correspond"] = time.time() - t0
    # pieces of the source the translator could not read: tied by the exhaustive dump, or broken
    fb = fallback_pieces(pid)
    if fb and fatal is None:
        try:
            ties = dump_tie(fb, backends, seed, pid)
            for piece, reason in sorted(fb.items()):
                tc = ties.get(piece)
                bad = [c for c in (tc or []) if c.impl != c.model]
                if tc is None or not tc or bad:
                    why = f"{reason}; the snapshot of this table is " + (
                        f"not what the compiled crate reports: {bad[0].as_dict()}" if bad else "not covered by a dump")
                    broken.append(Broken("translate." + piece, why))
                else:
                    timings.setdefault("tied_by_dump", []).append(f"{piece} ({len(tc)} dump lines agree; translator: {reason[:200]})")
                cases += (tc or [])
        except Broken as b:
            broken.append(b)
    # classify
    relevant = getattr(prop, "relevant", lambda c: True)
    oracle_fail = [c for c in cases if c.verdict.startswith("FAIL") and relevant(c)]
    differs = getattr(prop, "disagrees", lambda c: c.impl != c.model)
    disagree = [c for c in cases if differs(c)]
    if disagree:
        broken.append(Broken("corr." + disagree[0].line.split(" ")[0],
                             f"{len(disagree)} disagreeing lines; first: {disagree[0].as_dict()}"))
    # when an obligation broke in the quick tier, enlarge the search for a failing input
    if broken and not oracle_fail and not extra_fail and fatal is None and tier == "quick" and not replay:
        try:
            c2, _ = correspond(prop, "thorough", seed + 1, backends)
            oracle_fail = [c for c in c2 if c.verdict.startswith("FAIL") and relevant(c)]
            cases += c2
        except Broken as b:
            broken.append(b)
    violations = 0
    known_hits = {}
    new_fail = []
    for c in oracle_fail:
        k = known_match(pid, c, known)
        if k:
            known_hits.setdefault(k["key"], (k, c))
        else:
            new_fail.append(c)
    for key, (k, c) in known_hits.items():
        lines_out.append(f"KNOWN-FINDING: property={pid} {key}: {k['what']} (e.g. {c.be} `{c.line}` -> {c.impl[:120]})")
    for f in extra_fail:
        k = None
        for kk in known:
            if kk.get("property") == pid and kk.get("status") == "known" and kk.get("key") == f.get("known_key"):
                k = kk
        if k:
            lines_out.append(f"KNOWN-FINDING: property={pid} {k['key']}: {k['what']}")
        else:
            new_fail.append(f)
    exit_code = 0
    if new_fail:
        # report the simplest failing case first: shortest operation line (fewest digits / simplest amounts)
        line_cases = [c for c in new_fail if isinstance(c, Case)]
        if line_cases:
            simplest = min(line_cases, key=lambda c: (len(c.line), c.line))
            new_fail = [simplest] + [c for c in new_fail if c is not simplest]
        first = prop.shrink(new_fail[0]) if hasattr(prop, "shrink") and isinstance(new_fail[0], Case) else new_fail[0]
        payload = dict(property=pid, kind="oracle-failure-on-implementation", tier=tier, seed=seed,
                       cases=[(c.as_dict() if isinstance(c, Case) else c) for c in ([first] + new_fail[1:20])],
                       model_disagreements=[c.as_dict() for c in disagree[:10]],
                       broken_obligations=[dict(obligation=b.obligation, detail=b.detail[-1500:]) for b in broken])
        p = write_replay(pid, payload)
        lines_out.append(f"VIOLATION property={pid} replay={p}")
        violations = len(new_fail)
        exit_code = 1
    elif broken:
        payload = dict(property=pid, kind="broken-obligation", tier=tier, seed=seed,
                       obligation=broken[0].obligation,
                       broken_obligations=[dict(obligation=b.obligation, detail=b.detail[-3000:]) for b in broken],
                       cases=[c.as_dict() for c in disagree[:20]],
                       note="no input was found on which the property itself fails on the implementation")
        p = write_replay(pid, payload)
        lines_out.append(f"VIOLATION property={pid} replay={p} no-failing-input-found")
        violations = 1
        exit_code = 1
    # evidence
    nontrivial = getattr(prop, "nontrivial", lambda c: True)
    distinct = {(c.be, c.line) for c in cases if nontrivial(c)}
    samples = [c.as_dict() for c in cases[:: max(1, len(cases) // 6)][:6]]
    coverage = dict(
        obligations=max(obligations, 1), discharged=discharged,
        checker_cmd=f"cd /verif/lean && lake build {' '.join(prop.LEAN_MODULES)} && lake env lean ../work/audit_{pid}.lean",
        trusted_base=TRUSTED + list(getattr(prop, "TRUSTED_EXTRA", [])),
        theorems=thm_names, axioms=axioms,
        evaluations=len(cases), distinct_nontrivial=len(distinct),
        rule=getattr(prop, "RULE", "op lines generated from the model registry; non-trivial = distinct (back-end, op line) pairs accepted by the property's nontrivial() predicate"),
        samples=samples or [dict(note="no correspondence cases executed")],
        input_classes=hist, oracle_ok=sum(1 for c in cases if c.verdict == "ok"),
        oracle_skipped=sum(1 for c in cases if c.verdict.startswith("skip")),
        model_disagreements=len(disagree), known_findings=sorted(known_hits),
        broken_obligations=[b.obligation for b in broken], timings=timings)
    for k, v in extra_cov.items():
        if k in ("evaluations", "distinct_nontrivial"):
            coverage[k] += v
        elif k == "samples":
            coverage["samples"] = (samples + list(v)) or coverage["samples"]
        else:
            coverage[k] = v
    ev = dict(
        property_id=pid, tier=tier, seed=seed, level="proof", coverage=coverage,
        assumptions=list(getattr(prop, "ASSUMPTIONS", [])),
        wall_s=round(time.time() - t_start, 2), violations=violations)
    write_evidence(pid, ev)
    for l in lines_out:
        print(l)
    print(f"{pid} {tier}: theorems={len(thm_names)} discharged={discharged}/{obligations} cases={len(cases)} "
          f"oracle_fail={len(oracle_fail)} disagreements={len(disagree)} broken={[b.obligation for b in broken]} "
          f"wall={ev['wall_s']}s -> exit {exit_code}")
    return exit_code
