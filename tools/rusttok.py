"""A small Rust tokenizer, sufficient for attributes, items headers, match arms,
const tables and Cargo-independent source reading.  Not regexes over lines:
comments, nested block comments, string escapes, raw strings, char literals vs
lifetimes and numeric literal forms are handled."""
from fractions import Fraction


class Tok:
    __slots__ = ("kind", "text", "value", "line")

    def __init__(self, kind, text, value=None, line=0):
        self.kind = kind      # ident | str | int | float | punct | char | lifetime | doc
        self.text = text
        self.value = value
        self.line = line

    def __repr__(self):
        return f"Tok({self.kind},{self.text!r})"


class TokError(Exception):
    pass


def _unescape(body, line):
    out = []
    i = 0
    n = len(body)
    while i < n:
        c = body[i]
        if c != "\\":
            out.append(c)
            i += 1
            continue
        i += 1
        if i >= n:
            raise TokError(f"line {line}: dangling escape")
        e = body[i]
        i += 1
        if e == "n":
            out.append("\n")
        elif e == "r":
            out.append("\r")
        elif e == "t":
            out.append("\t")
        elif e == "0":
            out.append("\0")
        elif e in "\\'\"":
            out.append(e)
        elif e == "x":
            out.append(chr(int(body[i:i + 2], 16)))
            i += 2
        elif e == "u":
            if body[i] != "{":
                raise TokError(f"line {line}: bad \\u escape")
            j = body.index("}", i)
            out.append(chr(int(body[i + 1:j].replace("_", ""), 16)))
            i = j + 1
        elif e == "\n":
            while i < n and body[i] in " \t\r\n":
                i += 1
        else:
            raise TokError(f"line {line}: unknown escape \\{e}")
    return "".join(out)


def parse_number(text, line=0):
    """-> (kind, dict(digits, nfrac, exp, is_float, suffix)) for a decimal literal."""
    t = text.replace("_", "")
    suffix = ""
    for suf in ("f32", "f64", "i8", "i16", "i32", "i64", "i128", "isize",
                "u8", "u16", "u32", "u64", "u128", "usize"):
        if t.endswith(suf) and not t.lower().startswith("0x"):
            suffix = suf
            t = t[: -len(suf)]
            break
    if t[:2].lower() in ("0x", "0o", "0b"):
        raise TokError(f"line {line}: non-decimal literal {text}")
    mant, exp = t, 0
    is_float = False
    for ch in "eE":
        if ch in mant:
            mant, e = mant.split(ch, 1)
            exp = int(e)
            is_float = True
            break
    if "." in mant:
        ip, fp = mant.split(".", 1)
        is_float = True
    else:
        ip, fp = mant, ""
    if suffix.startswith("f"):
        is_float = True
    digits = int((ip + fp) or "0")
    return ("float" if is_float else "int"), dict(
        digits=digits, nfrac=len(fp), exp=exp, is_float=is_float, suffix=suffix, text=text)


def lit_value(l):
    v = Fraction(l["digits"]) * Fraction(10) ** (l["exp"] - l["nfrac"])
    return -v if l.get("neg") else v


def tokenize(src, keep_doc=False):
    toks = []
    i = 0
    n = len(src)
    line = 1
    while i < n:
        c = src[i]
        if c == "\n":
            line += 1
            i += 1
            continue
        if c in " \t\r":
            i += 1
            continue
        if src.startswith("//", i):
            j = src.find("\n", i)
            if j < 0:
                j = n
            if keep_doc and (src.startswith("///", i) and not src.startswith("////", i)):
                toks.append(Tok("doc", src[i:j], src[i + 3:j], line))
            i = j
            continue
        if src.startswith("/*", i):
            depth = 1
            j = i + 2
            while j < n and depth:
                if src.startswith("/*", j):
                    depth += 1
                    j += 2
                elif src.startswith("*/", j):
                    depth -= 1
                    j += 2
                else:
                    if src[j] == "\n":
                        line += 1
                    j += 1
            i = j
            continue
        # raw strings / byte strings
        if c == "r" and i + 1 < n and src[i + 1] in "#\"":
            j = i + 1
            hashes = 0
            while j < n and src[j] == "#":
                hashes += 1
                j += 1
            if j < n and src[j] == '"':
                end = src.find('"' + "#" * hashes, j + 1)
                if end < 0:
                    raise TokError(f"line {line}: unterminated raw string")
                body = src[j + 1:end]
                toks.append(Tok("str", src[i:end + 1 + hashes], body, line))
                line += body.count("\n")
                i = end + 1 + hashes
                continue
        if c == '"' or (c == "b" and i + 1 < n and src[i + 1] == '"'):
            j = i + (2 if c == "b" else 1)
            start = j
            while j < n and src[j] != '"':
                if src[j] == "\\":
                    j += 1
                j += 1
            if j >= n:
                raise TokError(f"line {line}: unterminated string")
            body = src[start:j]
            toks.append(Tok("str", src[i:j + 1], _unescape(body, line), line))
            line += body.count("\n")
            i = j + 1
            continue
        if c == "'":
            # char literal or lifetime
            if i + 2 < n and src[i + 1] == "\\":
                j = src.index("'", i + 3)
                toks.append(Tok("char", src[i:j + 1], None, line))
                i = j + 1
                continue
            if i + 2 < n and src[i + 2] == "'":
                toks.append(Tok("char", src[i:i + 3], src[i + 1], line))
                i += 3
                continue
            j = i + 1
            while j < n and (src[j].isalnum() or src[j] == "_"):
                j += 1
            toks.append(Tok("lifetime", src[i:j], None, line))
            i = j
            continue
        if c.isdigit():
            j = i
            while j < n and (src[j].isalnum() or src[j] == "_"):
                # exponent sign
                if src[j] in "eE" and not src[i:i + 2].lower() in ("0x",) and j + 1 < n and src[j + 1] in "+-":
                    j += 2
                    continue
                j += 1
            # fractional part: a '.' followed by a digit, or a trailing '.' not
            # followed by an identifier start or another '.'
            if j < n and src[j] == "." and not src.startswith("..", j):
                k = j + 1
                if k < n and src[k].isdigit():
                    while k < n and (src[k].isalnum() or src[k] == "_"):
                        if src[k] in "eE" and k + 1 < n and src[k + 1] in "+-":
                            k += 2
                            continue
                        k += 1
                    j = k
                elif not (k < n and (src[k].isalpha() or src[k] == "_")):
                    j = k
            text = src[i:j]
            kind, val = parse_number(text, line)
            toks.append(Tok(kind, text, val, line))
            i = j
            continue
        if c.isalpha() or c == "_":
            j = i
            while j < n and (src[j].isalnum() or src[j] == "_"):
                j += 1
            toks.append(Tok("ident", src[i:j], None, line))
            i = j
            continue
        toks.append(Tok("punct", c, None, line))
        i += 1
    return toks


OPEN = {"(": ")", "[": "]", "{": "}"}


def matching(toks, i):
    """index of the token closing the bracket opened at toks[i]"""
    stack = []
    j = i
    while j < len(toks):
        t = toks[j]
        if t.kind == "punct":
            if t.text in OPEN:
                stack.append(OPEN[t.text])
            elif t.text in ")]}":
                if not stack or stack.pop() != t.text:
                    raise TokError(f"line {t.line}: unbalanced {t.text}")
                if not stack:
                    return j
        j += 1
    raise TokError(f"line {toks[i].line}: unclosed {toks[i].text}")


def is_p(t, ch):
    return t.kind == "punct" and t.text == ch
