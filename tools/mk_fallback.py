#!/usr/bin/env python3
"""mk_fallback.py [repo]: snapshot of the source files the table translator reads, taken from the
tree the model was verified against (run by hand on the unchanged tree, result committed).
When a later version of one of these files cannot be read by the translator, the snapshot is
translated instead and the piece is tied to the code by the exhaustive registry dump only."""
import os
import shutil
import sys

sys.path.insert(0, os.path.dirname(os.path.abspath(__file__)))
from tcommon import catalogue_modules  # noqa: E402

VERIF = os.path.dirname(os.path.dirname(os.path.abspath(__file__)))


def main():
    repo = sys.argv[1] if len(sys.argv) > 1 else "/repo"
    dst = os.path.join(VERIF, "fallback")
    shutil.rmtree(dst, ignore_errors=True)
    files = ["Cargo.toml", "src/lib.rs", "src/si_prefixes.rs", "src/amnt_dec.rs", "src/amnt_f64.rs", "src/amnt_f32.rs",
             "src/prelude.rs", "src/rate.rs", "src/converter.rs", "astronimical_quantities/src/lib.rs",
             "astronimical_quantities/Cargo.toml", "qty-macros/src/lib.rs", "qty-macros/src/quantity_attr_helper.rs"]
    # every file of src/ (the inventory of conditional compilation reads them all)
    files += sorted("src/" + n for n in os.listdir(os.path.join(repo, "src")) if n.endswith(".rs") and "src/" + n not in files)
    files += [f"src/{m['module']}.rs" for m in catalogue_modules(repo)
              if not m["module"].startswith("amnt_") and f"src/{m['module']}.rs" not in files]
    for f in files:
        s = os.path.join(repo, f)
        if not os.path.exists(s):
            continue
        d = os.path.join(dst, f)
        os.makedirs(os.path.dirname(d), exist_ok=True)
        shutil.copy(s, d)
    head = os.popen(f"git -C {repo} rev-parse HEAD").read().strip()
    with open(os.path.join(dst, "SNAPSHOT_OF"), "w") as f:
        f.write(head + "\n")
    print("fallback snapshot:", len(files), "files of", head)


if __name__ == "__main__":
    main()
