//! Synthetic quantity definitions, expanded by the REAL `#[quantity]` macro,
//! covering every code path of the generator: with reference unit (SI-prefixed
//! and not), ties in scale (also with the reference unit), different literal
//! forms, non-ASCII symbols, without reference unit, single unit, and the
//! derived forms `A*B`, `A*A`, `A/B`, `AmountT/B`.
//!
//! The translator reads this file as well, so the Lean model is built from the
//! same text.
#![allow(missing_docs)]
use quantities::prelude::*;

// with reference unit, no SI prefix on the reference unit, ties
#[quantity]
#[ref_unit(Sa_Ref, "sr", "reference unit of Sa")]
#[unit(Sa_Three_B, "s3b", 3.0)]
#[unit(Sa_Half, "s½", 0.5, "half")]
#[unit(Sa_Same, "s1", 1, "same scale as the reference unit")]
#[unit(Sa_Three, "s3", 3)]
#[unit(Sa_Tenth, "s⅒", 0.1)]
#[unit(Sa_Kilo, "sk", KILO, 1e3)]
#[unit(Sa_Seventh, "s7", 0.142857142857142857)]
pub struct Sa {}

// SI-prefixed reference unit; some units without prefix
#[quantity]
#[ref_unit(Sb_Kilo, "kb", KILO)]
#[unit(Sb_Base, "b", NONE, 0.001)]
#[unit(Sb_Milli, "mb", MILLI, 0.000001)]
#[unit(Sb_Odd, "ob", 0.02)]
#[unit(Sb_Mega, "Mb", MEGA, 1000.)]
#[unit(Sb_Big, "Bb", 50000)]
#[unit(Sb_Odd_Giga, "Gob", GIGA, 5000000, "a prefix that does NOT match the scale (a million-fold of kilo would be 1000000)")]
pub struct Sb {}

// two units only
#[quantity]
#[ref_unit(Sc_Ref, "c")]
#[unit(Sc_Dozen, "dz", 12)]
pub struct Sc {}

// without reference unit
#[quantity]
#[unit(Sn_Zeta, "ζ")]
#[unit(Sn_Alpha, "α", "first by name")]
#[unit(Sn_Mid, "m")]
pub struct Sn {}

// without reference unit: names (underscores shown as spaces) and variant identifiers
// (UpperCamel) sort differently — ' ' < 'A' but 'B' > 'A'; 'a' > 'B' but "Apple" < "Banana"
#[quantity]
#[unit(Sx_bar_Baz, "xb")]
#[unit(Sx_barA, "xa")]
#[unit(Sx_apple, "x1")]
#[unit(Sx_Banana, "x2")]
#[unit(Sx_Foo_a, "x3")]
pub struct Sx {}

// without reference unit: two units with the SAME symbol (the macro does not ask for unique symbols),
// so that the units can only be told apart by the unit itself, never by what it displays
#[quantity]
#[unit(Sy_Rankine, "°R")]
#[unit(Sy_Reaumur, "°R")]
#[unit(Sy_Kelvin, "K")]
pub struct Sy {}

// single unit
#[quantity]
#[unit(Su_Only, "u1")]
pub struct Su {}

// derived: product of two different quantities
#[quantity(Sa * Sb)]
#[ref_unit(Sp_Ref, "sr·kb")]
#[unit(Sp_Milli, "sr·b", 0.001)]
#[unit(Sp_Three, "s3·kb", 3)]
#[unit(Sp_Big, "Psp", 1000000)]
pub struct Sp {}

// derived: square
#[quantity(Sc * Sc)]
#[ref_unit(Sq_Ref, "c²", NONE)]
#[unit(Sq_Gross, "dz²", 144)]
#[unit(Sq_Kilo, "kc²", KILO, 1000)]
pub struct Sq {}

// derived: quotient
#[quantity(Sa / Sc)]
#[ref_unit(Sd_Ref, "sr/c")]
#[unit(Sd_Quarter, "s3/dz", 0.25)]
#[unit(Sd_Half, "sh/c", 0.5)]
pub struct Sd {}

// derived: reciprocal of a quantity
#[quantity(AmountT / Sc)]
#[ref_unit(Sf_Ref, "1/c", NONE)]
#[unit(Sf_Milli, "m/c", MILLI, 0.001)]
#[unit(Sf_Kilo, "k/c", KILO, 1000)]
pub struct Sf {}

// with reference unit whose symbol is EMPTY (a "count"), an alias of scale one, and no SI prefix anywhere:
// an empty symbol does not make a type unit-less.  (The `#[ref_unit]` attribute comes first here on purpose:
// every check links against this file, and attribute ORDER is exercised by the generated definitions of
// C09/C11/C12 — `tools/defgen.py`, `tools/macrofront.py` — where a change that mistreats it is a failing input
// of those properties instead of a build failure of every harness.)
#[quantity]
#[ref_unit(Se_Piece, "")]
#[unit(Se_Each, "ea", 1, "alias of the reference unit")]
#[unit(Se_Gross, "gr", 144)]
#[unit(Se_Dozen, "doz", 12)]
pub struct Se {}

// derived: the reference unit of the RESULT has no SI prefix while other units of it have one
// (every unit is eligible for `_fit`, prefixed or not), one of them an alias of scale one
#[quantity(Se * Sc)]
#[ref_unit(Sg_Ref, "g")]
#[unit(Sg_Kilo, "kg", KILO, 1000)]
#[unit(Sg_Deca, "dag", DECA, 10)]
#[unit(Sg_Big, "Bg", 500)]
#[unit(Sg_Centi, "cg", CENTI, 0.01)]
#[unit(Sg_Unit, "ug", NONE, 1, "SI-prefixed alias of scale one: the reference unit still comes first")]
pub struct Sg {}

// units whose scales lie closer together than the binary64 machine epsilon in ABSOLUTE terms (1e-18, 1e-17,
// 1e-15) beside huge ones: a comparison of scales "within EPSILON" takes the small ones for aliases
#[quantity]
#[ref_unit(Sv_Ref, "v", NONE)]
#[unit(Sv_Atto, "av", ATTO, 0.000000000000000001)]
#[unit(Sv_Ten_Atto, "dav", 0.00000000000000001)]
#[unit(Sv_Femto, "fv", FEMTO, 0.000000000000001)]
#[unit(Sv_Exa, "Ev", EXA, 1000000000000000000.)]
#[unit(Sv_Angstrom, "Åv", 1.0e-10, "a scale literal with a decimal point AND an exponent ending in zero")]
pub struct Sv {}

// the two very large types live in their own file: the kernel-evaluated theorems over the synthetic
// definitions (`Gen.Synth.items`) do not need them, the correspondence does
mod big;
pub use big::*;
