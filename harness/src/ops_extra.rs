//! Further operations (rates, table conversion, formatting, serde, SI prefixes).
use crate::*;

pub fn dispatch(_op: &str, _a: &[&str]) -> Option<String> {
    None
}
