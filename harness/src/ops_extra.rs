//! Further operations (rates, table conversion, formatting, serde, SI prefixes).
#![allow(unused_imports)]
use crate::*;
use quantities::SIPrefix;

fn si(a: &[&str]) -> String {
    match a[0] {
        "iter" => SIPrefix::iter()
            .map(|p| format!("{:?}:h{}:h{}:{}", p, hex(p.name()), hex(p.abbr()), p.exp()))
            .collect::<Vec<_>>()
            .join(" "),
        "exp" => {
            let n: i64 = a[1].parse().expect("int");
            if n < i8::MIN as i64 || n > i8::MAX as i64 {
                return "none".into();
            }
            match SIPrefix::from_exp(n as i8) {
                Some(p) => format!("{:?}", p),
                None => "none".into(),
            }
        }
        "abbr" => match SIPrefix::from_abbr(&unhex(a[1])) {
            Some(p) => format!("{:?}", p),
            None => "none".into(),
        },
        _ => "bad-op".into(),
    }
}

pub fn dispatch(op: &str, a: &[&str]) -> Option<String> {
    match op {
        "si" => Some(si(a)),
        _ => None,
    }
}
