//! Further operations (rates, table conversion, formatting, serde, SI prefixes).
#![allow(unused_imports)]
use crate::*;
use quantities::SIPrefix;

fn si(a: &[&str]) -> String {
    match a[0] {
        "iter" => SIPrefix::iter()
            .map(|p| format!("{:?}:h{}:h{}:{}", p, hex(p.name()), hex(p.abbr()), p.exp()))
            .collect::<Vec<_>>()
            .join(" "),
        "exp" => {
            let n: i64 = a[1].parse().expect("int");
            if n < i8::MIN as i64 || n > i8::MAX as i64 {
                return "none".into();
            }
            match SIPrefix::from_exp(n as i8) {
                Some(p) => format!("{:?}", p),
                None => "none".into(),
            }
        }
        "abbr" => match SIPrefix::from_abbr(&unhex(a[1])) {
            Some(p) => format!("{:?}", p),
            None => "none".into(),
        },
        _ => "bad-op".into(),
    }
}

// ------------------------------------------------------------------ rates

#[cfg(feature = "g_rate")]
use quantities::Rate;

#[cfg(feature = "g_rate")]
fn rate_fields<TQ: Quantity<UnitType: 'static>, PQ: Quantity<UnitType: 'static>>(r: &Rate<TQ, PQ>) -> String {
    format!(
        "{} {} {} {}",
        enc(r.term_amount()),
        ix_of(r.term_unit()),
        enc(r.per_unit_multiple()),
        ix_of(r.per_unit())
    )
}

#[cfg(feature = "g_rate")]
/// args: ta tu pm pu op ...
/// `q_mul_rate`, `q_div_rate`, `q_mul_recip`: the generated operators, where the types have them
/// (the dimensionless `AmountT` has none of the generated `Mul<Rate>` / `Div<Rate>` impls).
pub fn rate_ops<TQ, PQ>(
    a: &[&str],
    q_mul_rate: Option<fn(PQ, Rate<TQ, PQ>) -> TQ>,
    q_div_rate: Option<fn(TQ, Rate<TQ, PQ>) -> PQ>,
    q_mul_recip: Option<fn(TQ, Rate<PQ, TQ>) -> PQ>,
) -> String
where
    TQ: Quantity<UnitType: 'static> + Div<TQ, Output = AmountT>,
    PQ: Quantity<UnitType: 'static> + Div<PQ, Output = AmountT>,
{
    let ta = dec_amt(a[0]);
    let tu = unit_at::<TQ::UnitType>(a[1].parse().unwrap());
    let pm = dec_amt(a[2]);
    let pu = unit_at::<PQ::UnitType>(a[3].parse().unwrap());
    let rate = Rate::<TQ, PQ>::new(ta, tu, pm, pu);
    match a[4] {
        "acc" => {
            let rec = rate.reciprocal();
            let rec2 = rec.reciprocal();
            let fq = Rate::<TQ, PQ>::from_qty_vals(TQ::new(ta, tu), PQ::new(pm, pu));
            format!(
                "{}|{}|{}|{}",
                rate_fields(&rate),
                rate_fields(&rec),
                rate_fields(&rec2),
                rate_fields(&fq)
            )
        }
        "mulq" => {
            let q = PQ::new(dec_amt(a[6]), unit_at::<PQ::UnitType>(a[5].parse().unwrap()));
            let r1 = guard(|| qstr(rate * q));
            let r2 = match q_mul_rate {
                Some(f) => guard(|| qstr(f(q, rate))),
                None => "na".into(),
            };
            let r3 = match q_div_rate {
                Some(f) => guard(|| qstr(f(rate * q, rate))),
                None => "na".into(),
            };
            format!("{}|{}|{}", r1, r2, r3)
        }
        "divq" => {
            let q = TQ::new(dec_amt(a[6]), unit_at::<TQ::UnitType>(a[5].parse().unwrap()));
            let r1 = match q_div_rate {
                Some(f) => guard(|| qstr(f(q, rate))),
                None => "na".into(),
            };
            let r2 = match q_mul_recip {
                Some(f) => guard(|| qstr(f(q, rate.reciprocal()))),
                None => "na".into(),
            };
            let r3 = match q_div_rate {
                Some(f) => guard(|| qstr(rate * f(q, rate))),
                None => "na".into(),
            };
            format!("{}|{}|{}", r1, r2, r3)
        }
        "fmt" => format!(
            "{} h{} h{}",
            guard(|| format!("h{}", hex(&format!("{}", rate)))),
            hex(&format!("{}", ta)),
            hex(&format!("{}", pm))
        ),
        _ => "bad-op".into(),
    }
}

// ------------------------------------------------------------------ conversion tables

#[cfg(any(feature = "g_tconv", feature = "temp"))]
use quantities::{ConversionTable, Converter};

#[cfg(feature = "g_tconv")]
/// rows: `from:to:factor:offset;...` (or `-` for the empty table)
pub fn tconv_ops<Q: Quantity<UnitType: 'static>>(a: &[&str]) -> String
where
    Q::UnitType: std::fmt::Debug,
{
    let rows: Vec<(Q::UnitType, Q::UnitType, AmountT, AmountT)> = if a[0] == "-" {
        vec![]
    } else {
        a[0].split(';')
            .map(|r| {
                let f: Vec<&str> = r.split(':').collect();
                (
                    unit_at::<Q::UnitType>(f[0].parse().unwrap()),
                    unit_at::<Q::UnitType>(f[1].parse().unwrap()),
                    dec_amt(f[2]),
                    dec_amt(f[3]),
                )
            })
            .collect()
    };
    let q = Q::new(dec_amt(a[2]), unit_at::<Q::UnitType>(a[1].parse().unwrap()));
    let to = unit_at::<Q::UnitType>(a[3].parse().unwrap());
    macro_rules! with_n {
        ($($n:literal),*) => {
            match rows.len() {
                $($n => {
                    let arr: [(Q::UnitType, Q::UnitType, AmountT, AmountT); $n] =
                        rows.clone().try_into().expect("len");
                    let t = ConversionTable::<Q, $n> { mappings: arr };
                    guard(|| opt_q(t.convert(&q, to)))
                })*
                _ => "bad-op".to_string(),
            }
        };
    }
    with_n!(0, 1, 2, 3, 4, 5, 6, 7, 8, 9, 10, 11, 12)
}

pub fn opt_q<Q: Quantity<UnitType: 'static>>(r: Option<Q>) -> String {
    match r {
        Some(q) => format!("some {}", qstr(q)),
        None => "none".into(),
    }
}

#[cfg(feature = "temp")]
fn temp(a: &[&str]) -> String {
    use quantities::temperature::{Temperature, TEMPERATURE_CONVERTER};
    match a[0] {
        "rows" => TEMPERATURE_CONVERTER
            .mappings
            .iter()
            .map(|(f, t, fa, of)| format!("{}:{}:{}:{}", ix_of(*f), ix_of(*t), enc(*fa), enc(*of)))
            .collect::<Vec<_>>()
            .join(";"),
        "conv" => {
            let q = Temperature::new(dec_amt(a[2]), unit_at(a[1].parse().unwrap()));
            let to = unit_at(a[3].parse().unwrap());
            guard(|| opt_q(TEMPERATURE_CONVERTER.convert(&q, to)))
        }
        _ => "bad-op".into(),
    }
}

/// `ftxt <amount> <precision|->`: the amount type's own `Display` (binary64: what std prints), as hex text;
/// `parse` appended: the text read back with `str::parse` (bits)
fn ftxt(a: &[&str]) -> String {
    let x: AmountT = dec_amt(a[0]);
    let t = match a[1] {
        "-" => format!("{}", x),
        p => {
            let p: usize = p.parse().expect("precision");
            format!("{:.*}", p, x)
        }
    };
    format!("h{}", hex(&t))
}

pub fn dispatch(op: &str, a: &[&str]) -> Option<String> {
    match op {
        "si" => Some(si(a)),
        "ftxt" => Some(ftxt(a)),
        #[cfg(feature = "temp")]
        "temp" => Some(temp(a)),
        _ => None,
    }
}
