//! Correspondence harness: executes operation lines on the REAL crate
//! (path dependency on the repository working tree) and prints one output line
//! per input line.  See /verif/DESIGN.md §2.7 for the protocol.
#![allow(clippy::all)]
#![allow(dead_code)]

use std::fmt::Display;
use std::io::{BufRead, Write};
use std::ops::{Add, Div, Mul, Sub};
use std::panic::{catch_unwind, AssertUnwindSafe};

use quantities::prelude::*;
use quantities::{LinearScaledUnit, Quantity, Unit};

mod synth;
mod gen_dispatch;
mod ops_extra;
mod ops_fmt;

// ------------------------------------------------------------------ amounts

#[cfg(not(feature = "dec"))]
pub fn enc(a: AmountT) -> String {
    if a.is_nan() {
        "xnan".to_string()
    } else {
        format!("x{:016x}", a.to_bits())
    }
}

#[cfg(not(feature = "dec"))]
pub fn dec_amt(s: &str) -> AmountT {
    if s == "xnan" {
        return f64::NAN;
    }
    f64::from_bits(u64::from_str_radix(&s[1..], 16).expect("bad f64 hex"))
}

#[cfg(feature = "dec")]
pub fn enc(a: AmountT) -> String {
    format!("d{}/{}", a.coefficient(), a.n_frac_digits())
}

#[cfg(feature = "dec")]
pub fn dec_amt(s: &str) -> AmountT {
    let (c, n) = s[1..].split_once('/').expect("bad decimal");
    quantities::Decimal::new_raw(c.parse().expect("coeff"), n.parse().expect("nfd"))
}

#[cfg(not(feature = "dec"))]
pub fn abs_amount(a: AmountT) -> AmountT {
    if a >= 0.0 {
        a
    } else {
        -a
    }
}

#[cfg(feature = "dec")]
pub fn abs_amount(a: AmountT) -> AmountT {
    a.abs()
}

#[cfg(not(feature = "dec"))]
pub fn parse_amount(s: &str) -> Option<AmountT> {
    s.parse::<f64>().ok()
}

#[cfg(feature = "dec")]
pub fn parse_amount(s: &str) -> Option<AmountT> {
    use std::str::FromStr;
    quantities::Decimal::from_str(s).ok()
}

pub fn hex(s: &str) -> String {
    s.as_bytes().iter().map(|b| format!("{:02x}", b)).collect()
}

pub fn unhex(s: &str) -> String {
    let s = s.strip_prefix('h').expect("hex text must start with h");
    let bytes: Vec<u8> = (0..s.len() / 2)
        .map(|i| u8::from_str_radix(&s[2 * i..2 * i + 2], 16).expect("hex"))
        .collect();
    String::from_utf8(bytes).expect("utf8")
}

// ------------------------------------------------------------------ panics

pub fn classify(msg: &str) -> String {
    let low = msg.to_lowercase();
    if msg.starts_with("Can't ") {
        "unit-mismatch".into()
    } else if low.contains("division by zero") || low.contains("divide by zero") {
        "div-by-zero".into()
    } else if low.contains("overflow") || low.contains("internal representation exceeded") {
        "overflow".into()
    } else if msg.contains("Option::unwrap()") {
        "unwrap-none".into()
    } else {
        format!("other:{}", msg.replace(['\t', '\n', ' '], "_"))
    }
}

pub fn guard<F: FnOnce() -> String>(f: F) -> String {
    match catch_unwind(AssertUnwindSafe(f)) {
        Ok(s) => s,
        Err(e) => {
            let msg = if let Some(s) = e.downcast_ref::<&str>() {
                (*s).to_string()
            } else if let Some(s) = e.downcast_ref::<String>() {
                s.clone()
            } else {
                "?".to_string()
            };
            format!("panic:{}", classify(&msg))
        }
    }
}

// ------------------------------------------------------------------ helpers

/// The unit variants of every quantity type in the MODEL's order, keyed by the `TypeId` of the
/// unit enum (generated from the model's dump).  Operations address units by their index in the
/// model's table and the harness resolves the index to the enum VARIANT the model predicts for
/// it, so that an operation means the same unit on both sides whatever `iter()`, `name()`,
/// `symbol()` or the constants report (those are what the `reg` operation reports).
fn model_units<U: Unit + 'static>() -> Option<&'static Vec<U>> {
    static UNITS: std::sync::OnceLock<std::collections::HashMap<std::any::TypeId, Box<dyn std::any::Any + Send + Sync>>> =
        std::sync::OnceLock::new();
    UNITS
        .get_or_init(|| gen_dispatch::model_units().into_iter().collect())
        .get(&std::any::TypeId::of::<U>())
        .and_then(|b| b.downcast_ref::<Vec<U>>())
}

pub fn unit_at<U: Unit + 'static>(i: usize) -> U {
    match model_units::<U>() {
        Some(us) => *us.get(i).expect("unit index out of range"),
        None => U::iter().nth(i).expect("unit index out of range"),
    }
}

pub fn ix_of<U: Unit + 'static>(u: U) -> usize {
    match model_units::<U>() {
        Some(us) => us.iter().position(|m| *m == u).expect("unit not in the model"),
        None => U::iter().position(|v| v == u).expect("unit not in iter()"),
    }
}

pub fn qstr<Q: Quantity<UnitType: 'static>>(q: Q) -> String {
    format!("{} {}", ix_of(q.unit()), enc(q.amount()))
}

pub fn opt_ix<U: Unit + 'static>(u: Option<U>) -> String {
    match u {
        Some(u) => ix_of(u).to_string(),
        None => "none".into(),
    }
}

fn b(x: bool) -> char {
    if x {
        '1'
    } else {
        '0'
    }
}

pub fn cmp_group<Q: PartialEq + PartialOrd>(x: &Q, y: &Q) -> String {
    guard(|| {
        let pc = match x.partial_cmp(y) {
            Some(std::cmp::Ordering::Less) => "lt",
            Some(std::cmp::Ordering::Equal) => "eq",
            Some(std::cmp::Ordering::Greater) => "gt",
            None => "none",
        };
        format!(
            "{}{}{}{}{}{}:{}",
            b(x == y),
            b(x != y),
            b(x < y),
            b(x <= y),
            b(x > y),
            b(x >= y),
            pc
        )
    })
}

// ------------------------------------------------------------------ registry

/// `consts`: (constant name, the constant's value) as predicted by the model.
pub fn reg_any<Q>(consts: &[(&str, Q::UnitType)], scale: &dyn Fn(Q::UnitType) -> String, refix: &dyn Fn() -> String, kind: &str) -> String
where
    Q: Quantity<UnitType: 'static>,
    Q::UnitType: std::fmt::Debug,
{
    let units: Vec<Q::UnitType> = Q::iter_units().collect();
    let mut rows = Vec::new();
    for (i, u) in units.iter().enumerate() {
        let pf = match u.si_prefix() {
            Some(p) => format!("{:?}", p),
            None => "-".to_string(),
        };
        let c = consts
            .get(i)
            .map(|(n, v)| format!("{}:{}", n, if v == u { "ok" } else { "bad" }))
            .unwrap_or_else(|| "?:missing".into());
        rows.push(format!(
            "{:?},{},{},{},{},{}",
            u,
            hex(&u.name()),
            hex(&u.symbol()),
            pf,
            scale(*u),
            c
        ));
    }
    format!("n={} ref={} kind={} | {}", units.len(), refix(), kind, rows.join(" | "))
}

// ------------------------------------------------------------------ generic op sets

/// Operations shared by every quantity type (with or without reference unit).
pub fn common_ops<Q>(op: &str, a: &[&str]) -> Option<String>
where
    Q: Quantity<UnitType: 'static>
        + Add<Q, Output = Q>
        + Sub<Q, Output = Q>
        + Div<Q, Output = AmountT>
        + Mul<AmountT, Output = Q>
        + Div<AmountT, Output = Q>
        + Display,
    AmountT: Mul<Q, Output = Q> + Mul<Q::UnitType, Output = Q>,
    Q::UnitType: Mul<AmountT, Output = Q>,
{
    let u = |s: &str| unit_at::<Q::UnitType>(s.parse().expect("unit index"));
    Some(match op {
        "add" => guard(|| qstr(Q::new(dec_amt(a[1]), u(a[0])) + Q::new(dec_amt(a[3]), u(a[2])))),
        "sub" => guard(|| qstr(Q::new(dec_amt(a[1]), u(a[0])) - Q::new(dec_amt(a[3]), u(a[2])))),
        "div" => guard(|| enc(Q::new(dec_amt(a[1]), u(a[0])) / Q::new(dec_amt(a[3]), u(a[2])))),
        "new" => {
            let (un, am) = (u(a[0]), dec_amt(a[1]));
            format!("{}|{}|{}", qstr(Q::new(am, un)), qstr(am * un), qstr(un * am))
        }
        "asq" => {
            // `Unit::as_qty`: every unit taken as a quantity is one of itself
            let un = u(a[0]);
            qstr(un.as_qty())
        }
        "smul" => {
            let q = Q::new(dec_amt(a[1]), u(a[0]));
            let k = dec_amt(a[2]);
            format!(
                "{}|{}|{}",
                guard(|| qstr(k * q)),
                guard(|| qstr(q * k)),
                guard(|| qstr(q / k))
            )
        }
        "fmt" => {
            // fmt <i> <a> <flags> <w|-> <p|->
            let q = Q::new(dec_amt(a[1]), u(a[0]));
            let w: Option<usize> = a[3].parse().ok();
            let p: Option<usize> = a[4].parse().ok();
            let out = guard(|| format!("h{}", hex(&ops_fmt::fmt_dyn(&q, a[2], w, p))));
            let reference = if q.unit().symbol().is_empty() {
                ops_fmt::fmt_dyn(&q.amount(), a[2], w, p)
            } else {
                ops_fmt::fmt_dyn(&abs_amount(q.amount()), "nn00", None, p)
            };
            format!("{} h{}", out, hex(&reference))
        }
        "fmtu" => {
            let un = u(a[0]);
            let w: Option<usize> = a[2].parse().ok();
            let p: Option<usize> = a[3].parse().ok();
            format!(
                "h{} h{}",
                hex(&ops_fmt::fmt_dyn(&un, a[1], w, p)),
                hex(&ops_fmt::fmt_dyn(&un.symbol(), a[1], w, p))
            )
        }
        "fmtrt" => {
            let q = Q::new(dec_amt(a[1]), u(a[0]));
            let text = format!("{}", q);
            let (amt_txt, sym) = if q.unit().symbol().is_empty() {
                (text.as_str(), "")
            } else {
                match text.rfind(' ') {
                    Some(k) => (&text[..k], &text[k + 1..]),
                    None => (text.as_str(), "?"),
                }
            };
            let parsed = match parse_amount(amt_txt) {
                Some(x) => enc(x),
                None => "unparsable".to_string(),
            };
            format!("h{} {} {}", hex(&text), parsed, opt_ix(Q::unit_from_symbol(sym)))
        }
        "fmtnest" => {
            // re-entrant formatting: the sink formats the SAME value again for every chunk it receives
            // (a logging sink stamping each chunk would do that); only "does it return" matters
            let q = Q::new(dec_amt(a[1]), u(a[0]));
            struct Nest<'a, T: core::fmt::Display> {
                inner: &'a T,
                depth: usize,
                out: String,
            }
            impl<'a, T: core::fmt::Display> core::fmt::Write for Nest<'a, T> {
                fn write_str(&mut self, s: &str) -> core::fmt::Result {
                    self.out.push_str(s);
                    if self.depth < 2 {
                        let mut n = Nest { inner: self.inner, depth: self.depth + 1, out: String::new() };
                        core::fmt::write(&mut n, format_args!("{:>9.2}|{}", self.inner, self.inner))?;
                        self.out.push_str(&n.out);
                    }
                    Ok(())
                }
            }
            let mut n = Nest { inner: &q, depth: 0, out: String::new() };
            match core::fmt::write(&mut n, format_args!("{}", q)) {
                Ok(()) => "ok".to_string(),
                Err(_) => "fmt-error".to_string(),
            }
        }
        "fsym" => {
            let s = unhex(a[0]);
            format!(
                "{} {}",
                opt_ix(<Q::UnitType as Unit>::from_symbol(&s)),
                opt_ix(Q::unit_from_symbol(&s))
            )
        }
        _ => return None,
    })
}

/// Comparison operators (not generated for single-unit types).
pub fn cmp_ops<Q>(op: &str, a: &[&str]) -> Option<String>
where
    Q: Quantity<UnitType: 'static> + PartialEq + PartialOrd,
{
    let u = |s: &str| unit_at::<Q::UnitType>(s.parse().expect("unit index"));
    if op != "cmp" {
        return None;
    }
    let x = Q::new(dec_amt(a[1]), u(a[0]));
    let y = Q::new(dec_amt(a[3]), u(a[2]));
    Some(format!("{}|{}|{}", cmp_group(&x, &y), cmp_group(&y, &x), cmp_group(&x, &x)))
}

#[cfg(feature = "g_ser")]
/// Serialisation (feature `serde`): JSON text of the value, of its amount and of its unit, and
/// what deserialising the text gives back.
pub fn ser_ops<Q>(op: &str, a: &[&str]) -> Option<String>
where
    Q: Quantity<UnitType: 'static> + serde::Serialize + serde::de::DeserializeOwned,
    Q::UnitType: serde::Serialize + serde::de::DeserializeOwned,
{
    if op != "ser" {
        return None;
    }
    let un = unit_at::<Q::UnitType>(a[0].parse().expect("unit index"));
    let q = Q::new(dec_amt(a[1]), un);
    Some(guard(|| {
        let qj = serde_json::to_string(&q).expect("ser qty");
        let aj = serde_json::to_string(&q.amount()).expect("ser amount");
        let uj = serde_json::to_string(&un).expect("ser unit");
        // value tree: same content as the text?
        let tree = serde_json::to_value(&q).expect("to_value");
        let tree_ok = serde_json::from_str::<serde_json::Value>(&qj).map(|v| v == tree).unwrap_or(false);
        let back = match serde_json::from_str::<Q>(&qj) {
            Ok(b) => qstr(b),
            Err(e) => format!("de-error:{}", e.to_string().replace(' ', "_")),
        };
        let back_tree = match serde_json::from_value::<Q>(tree) {
            Ok(b) => qstr(b),
            Err(e) => format!("de-error:{}", e.to_string().replace(' ', "_")),
        };
        let uback = match serde_json::from_str::<Q::UnitType>(&uj) {
            Ok(b) => ix_of(b).to_string(),
            Err(_) => "de-error".to_string(),
        };
        // the amount's JSON text read back with an exactly rounding parser
        let aparsed = match parse_amount(aj.trim_matches('"')) {
            Some(x) => enc(x),
            None => "unparsable".to_string(),
        };
        format!(
            "h{} h{} h{} {} {} {} {} {}",
            hex(&qj), hex(&aj), hex(&uj), if tree_ok { "tree=text" } else { "tree!=text" },
            back.replace(' ', ","), back_tree.replace(' ', ","), uback, aparsed
        )
    }))
}

/// Operations of quantity types with a reference unit.
pub fn ref_ops<Q>(op: &str, a: &[&str]) -> Option<String>
where
    Q: HasRefUnit,
    Q::UnitType: LinearScaledUnit + 'static,
{
    let u = |s: &str| unit_at::<Q::UnitType>(s.parse().expect("unit index"));
    Some(match op {
        "conv" => guard(|| {
            let q = Q::new(dec_amt(a[2]), u(a[0]));
            let to = u(a[1]);
            let r = q.convert(to);
            format!("{} {}", qstr(r), enc(q.equiv_amount(to)))
        }),
        "fit" => guard(|| qstr(Q::_fit(dec_amt(a[0])))),
        "fscale" => {
            let x = dec_amt(a[0]);
            format!(
                "{} {}",
                opt_ix(<Q::UnitType as LinearScaledUnit>::from_scale(x)),
                opt_ix(Q::unit_from_scale(x))
            )
        }
        _ => return None,
    })
}

pub fn reg_ref<Q>(consts: &[(&str, Q::UnitType)]) -> String
where
    Q: HasRefUnit,
    Q::UnitType: LinearScaledUnit + 'static + std::fmt::Debug,
{
    let refix = || {
        let r = <Q as HasRefUnit>::REF_UNIT;
        let r2 = <Q::UnitType as LinearScaledUnit>::REF_UNIT;
        let nref = Q::iter_units().filter(|u| u.is_ref_unit()).count();
        if r == r2 && nref == 1 {
            ix_of(r).to_string()
        } else {
            format!("inconsistent({},{},{})", ix_of(r), ix_of(r2), nref)
        }
    };
    reg_any::<Q>(consts, &|u| enc(u.scale()), &refix, "withref")
}

pub fn reg_noref<Q>(consts: &[(&str, Q::UnitType)], kind: &str) -> String
where
    Q: Quantity<UnitType: 'static>,
    Q::UnitType: std::fmt::Debug,
{
    reg_any::<Q>(consts, &|_| "-".to_string(), &|| "-".to_string(), kind)
}

/// derived operators, four owned/borrowed forms
pub fn dmul<L, R, O>(a: &[&str]) -> String
where
    L: Quantity<UnitType: 'static> + Mul<R, Output = O> + 'static,
    R: Quantity<UnitType: 'static> + 'static,
    O: Quantity<UnitType: 'static>,
    for<'x> &'x L: Mul<R, Output = O> + Mul<&'x R, Output = O>,
    for<'x> L: Mul<&'x R, Output = O>,
{
    let l = L::new(dec_amt(a[1]), unit_at::<L::UnitType>(a[0].parse().unwrap()));
    let r = R::new(dec_amt(a[3]), unit_at::<R::UnitType>(a[2].parse().unwrap()));
    let four = format!(
        "{}|{}|{}|{}",
        guard(|| qstr(l * r)),
        guard(|| qstr(&l * r)),
        guard(|| qstr(l * &r)),
        guard(|| qstr(&l * &r))
    );
    // both borrowed operands ONE object (`&x * &x`): only where both operand types are the same type and the
    // line names the same unit and amount twice
    if std::any::TypeId::of::<L>() == std::any::TypeId::of::<R>() && a[0] == a[2] && a[1] == a[3] {
        // SAFETY: `L` and `R` are the same type (checked above), so `&l` is a valid `&R`
        let same: &R = unsafe { &*(&l as *const L as *const R) };
        format!("{}|{}", four, guard(|| qstr(&l * same)))
    } else {
        four
    }
}

pub fn ddiv<L, R, O>(a: &[&str]) -> String
where
    L: Quantity<UnitType: 'static> + Div<R, Output = O> + 'static,
    R: Quantity<UnitType: 'static> + 'static,
    O: Quantity<UnitType: 'static>,
    for<'x> &'x L: Div<R, Output = O> + Div<&'x R, Output = O>,
    for<'x> L: Div<&'x R, Output = O>,
{
    let l = L::new(dec_amt(a[1]), unit_at::<L::UnitType>(a[0].parse().unwrap()));
    let r = R::new(dec_amt(a[3]), unit_at::<R::UnitType>(a[2].parse().unwrap()));
    let four = format!(
        "{}|{}|{}|{}",
        guard(|| qstr(l / r)),
        guard(|| qstr(&l / r)),
        guard(|| qstr(l / &r)),
        guard(|| qstr(&l / &r))
    );
    if std::any::TypeId::of::<L>() == std::any::TypeId::of::<R>() && a[0] == a[2] && a[1] == a[3] {
        // SAFETY: `L` and `R` are the same type (checked above), so `&l` is a valid `&R`
        let same: &R = unsafe { &*(&l as *const L as *const R) };
        format!("{}|{}", four, guard(|| qstr(&l / same)))
    } else {
        four
    }
}

/// two-step chain `(l * r) / r`: prints the intermediate product and the final quotient
pub fn dmd<L, R, O>(a: &[&str]) -> String
where
    L: Quantity<UnitType: 'static> + Mul<R, Output = O>,
    R: Quantity<UnitType: 'static>,
    O: Quantity<UnitType: 'static> + Div<R, Output = L>,
{
    let l = L::new(dec_amt(a[1]), unit_at::<L::UnitType>(a[0].parse().unwrap()));
    let r = R::new(dec_amt(a[3]), unit_at::<R::UnitType>(a[2].parse().unwrap()));
    let p = match std::panic::catch_unwind(std::panic::AssertUnwindSafe(|| l * r)) {
        Ok(p) => p,
        Err(_) => return format!("{}|-", guard(|| qstr(l * r))),
    };
    format!("{}|{}", qstr(p), guard(|| qstr(p / r)))
}

/// two-step chain `(l / r) * r`
pub fn ddm<L, R, O>(a: &[&str]) -> String
where
    L: Quantity<UnitType: 'static> + Div<R, Output = O>,
    R: Quantity<UnitType: 'static>,
    O: Quantity<UnitType: 'static> + Mul<R, Output = L>,
{
    let l = L::new(dec_amt(a[1]), unit_at::<L::UnitType>(a[0].parse().unwrap()));
    let r = R::new(dec_amt(a[3]), unit_at::<R::UnitType>(a[2].parse().unwrap()));
    let p = match std::panic::catch_unwind(std::panic::AssertUnwindSafe(|| l / r)) {
        Ok(p) => p,
        Err(_) => return format!("{}|-", guard(|| qstr(l / r))),
    };
    format!("{}|{}", qstr(p), guard(|| qstr(p * r)))
}

// ------------------------------------------------------------------ main loop

fn handle(line: &str) -> String {
    let ws: Vec<&str> = line.split(' ').collect();
    if ws.is_empty() {
        return "bad-op".into();
    }
    match gen_dispatch::dispatch(ws[0], &ws[1..]) {
        Some(s) => s,
        None => match ops_extra::dispatch(ws[0], &ws[1..]) {
            Some(s) => s,
            None => "bad-op".into(),
        },
    }
}

fn main() {
    std::panic::set_hook(Box::new(|_| {}));
    let stdin = std::io::stdin();
    let stdout = std::io::stdout();
    let mut out = std::io::BufWriter::new(stdout.lock());
    for line in stdin.lock().lines() {
        let line = line.expect("read");
        let res = guard(|| handle(line.trim_end()));
        writeln!(out, "{}", res).expect("write");
    }
}
