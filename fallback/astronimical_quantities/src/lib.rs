// ---------------------------------------------------------------------------
// Copyright:   (c) 2021 ff. Michael Amrhein (michael@adrhinum.de)
// License:     This program is part of a larger application. For license
//              details please read the file LICENSE.TXT provided together
//              with the application.
// ---------------------------------------------------------------------------
// $Source$
// $Revision$

#![doc = include_str ! ("../README.md")]
#![cfg_attr(not(feature = "std"), no_std)]
#![allow(dead_code)]

use quantities::prelude::*;

#[quantity]
#[ref_unit(Solar_Mass, "M☉", "Reference unit of quantity `Mass`")]
#[unit(Lunar_Mass, "M☾", 3.694329684197616e-8, "1/27068510·M☉")]
#[unit(Earth_Mass, "M🜨", 3.003489616124103e-6, "10000/3329460487·M☉")]
#[unit(Jupiter_Mass, "M♃", 9.547918983127074e-4, "1000000/1047348644·M☉")]
/// The quantity of matter in an astonomical body.
///
/// Reference unit: Solar Mass ('M☉')
///
/// Predefined units:
///
/// | Symbol | Name            | Definition            | Equivalent in 'M☉'   |
/// |--------|-----------------|-----------------------|----------------------|
/// | M☾     | Lunar Mass      | 1/27068510 M☉         | 3.694329684197616e-8 |
/// | M🜨     | Earth Mass      | 10000/3329460487 M☉   | 3.003489616124103e-6 |
/// | M♃     | Jupiter Mass    | 1000000/1047348644 M☉ | 9.547918983127074e-4 |
pub struct Mass {}

#[quantity]
#[ref_unit(
    Astronomical_Unit,
    "au",
    "Reference unit of quantity `Length` (= 149597870700·m)"
)]
#[unit(Kilometer, "km", 6.6845871222684464e-9, "1000·m")]
#[unit(Lightsecond, "ls", 0.002003988804100004, "299792458·m")]
#[unit(Lightyear, "ly", 63241.07708426629, "31557600·ls")]
#[unit(Parsec, "pc", 206264.80624709636, "648000/π·au")]
#[unit(Kilolightyear, "kly", 63241077.08426629, "1000·ly")]
#[unit(Kiloparsec, "kpc", 206264806.24709636, "1000·pc")]
#[unit(Megalightyear, "Mly", 63241077084.26629, "10⁶·ly")]
#[unit(Megaparsec, "Mpc", 206264806247.09636, "10⁶·pc")]
#[unit(Gigalightyear, "Gly", 63241077084266.29, "10⁹·ly")]
#[unit(Gigaparsec, "Gpc", 206264806247096.36, "10⁹·pc")]
/// The quantity of distance between two points in spacetime.
///
/// Reference unit: Astronomical Unit ('au')
///
/// Predefined units:
///
/// | Symbol | Name                    | Definition     | Equivalent in 'au'   |
/// |--------|-------------------------|----------------|----------------------|
/// | km     | Kilometer               | 1000·m         | 6.684587122268446e-9 |
/// | ls     | Lightsecond             | 299792458·m    | 0.002003988804100004 |
/// | ly     | Lightyear               | 31557600·ls    | 63241.07708426629    |
/// | pc     | Parsec                  | 648000/π·au    | 206264.80624709636   |
/// | kly    | Kilolightyear           | 1000·ly        | 63241077.08426629    |
/// | kpc    | Kiloparsec              | 1000·pc        | 206264806.24709636   |
/// | Mly    | Megalightyear           | 10⁶·ly         | 63241077084.26629    |
/// | Mpc    | Megaparsec              | 10⁶·pc         | 206264806247.09636   |
/// | Gly    | Gigalightyear           | 10⁹·ly         | 63241077084266.29    |
/// | Gpc    | Gigaparsec              | 10⁹·pc         | 206264806247096.36   |
pub struct Length {}

#[quantity]
#[ref_unit(Day, "d", "Reference unit of quantity `Duration` (= 24·h)")]
#[unit(Second, "s", 1.1574074074074073e-5, "SI reference unit")]
#[unit(Minute, "min", 0.0006944444444444445, "60·s")]
#[unit(Hour, "h", 0.041666666666666664, "60·min")]
#[unit(Sideral_Day, "dₛ", 0.9972685185185185, "a·d/(a + d)")]
#[unit(Julian_Year, "a", 365.25, "365.25·d")]
#[unit(Gregorian_Year, "yr", 365.2425, "365.2425·d")]
#[unit(
    Earth_Period,
    "T🜨",
    365.256363004,
    "Earth's Orbital Period (≈ 365.256363004·d)"
)]
/// Duration: 'what a clock reads'
///
/// Reference unit: Day ('d')
///
/// Predefined units:
///
/// | Symbol | Name                | Definition        | Equivalent in 'd'     |
/// |--------|---------------------|-------------------|-----------------------|
/// | s      | Second              | SI reference unit | 1.1574074074074073e-5 |
/// | min    | Minute              | 60·s              | 0.0006944444444444445 |
/// | h      | Hour                | 60·min            | 0.041666666666666664  |
/// | dₛ     | Siderial Day        | a·d/(a + d)       | 0.9972685185185185    |
/// | a      | Julian Year         | 365.25·d          | 365.25                |
/// | yr     | Gregorian Year      | 365.2425·d        | 365.2425              |
/// | T🜨     | Earth's Orbital Period | ≈ 365.256363004·d | 365.256363004      |
pub struct Duration {}

#[quantity(Length / Duration)]
#[ref_unit(
    Astronomical_Units_per_Day,
    "au/d",
    "Reference unit of quantity `Speed`"
)]
#[unit(Kilometer_per_Hour, "km/h", 1.604300909344427e-7, "km/h")]
#[unit(Meter_per_Second, "m/s", 5.775483273639937e-7, "SI reference unit")]
#[unit(Speed_of_Light, "c", 173.14463267424034, "ls/s")]
/// Magnitude of the change of an objects position per unit of time
///
/// Definition: Length/Duration
///
/// Reference unit: Astronomical Units per Day ('au/d')
///
/// Predefined units:
///
/// | Symbol | Name                 | Definition        | Equivalent in 'au/d' |
/// |--------|----------------------|-------------------|----------------------|
/// | km/h   | Kilometer per Hour   | km/h              | 1.604300909344427e-7 |
/// | m/s    | Meter per Second     | SI reference unit | 5.775483273639937e-7 |
/// | c      | Speed of Light       | ls/s              | 173.14463267424034   |
pub struct Speed {}
