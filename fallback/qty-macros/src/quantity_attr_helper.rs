// ---------------------------------------------------------------------------
// Copyright:   (c) 2021 ff. Michael Amrhein (michael@adrhinum.de)
// License:     This program is part of a larger application. For license
//              details please read the file LICENSE.TXT provided together
//              with the application.
// ---------------------------------------------------------------------------
// $Source$
// $Revision$

use convert_case::{Case, Casing};
use proc_macro2::{Span, TokenStream};
use proc_macro_error::{abort, abort_call_site};
use quote::quote;

pub(crate) struct DerivedAs {
    lhs_ident: syn::Ident,
    op: syn::BinOp,
    rhs_ident: syn::Ident,
}

pub(crate) struct UnitDef {
    unit_ident: syn::Ident,
    name: syn::LitStr,
    symbol: syn::LitStr,
    si_prefix: Option<syn::Ident>,
    scale: Option<syn::Lit>,
    doc: Option<syn::LitStr>,
}

pub(crate) struct QtyDef {
    pub(crate) qty_ident: syn::Ident,
    pub(crate) derived_as: Option<DerivedAs>,
    pub(crate) ref_unit_ident: Option<syn::Ident>,
    pub(crate) units: Vec<UnitDef>,
}

impl QtyDef {
    fn new(qty_id: syn::Ident) -> Self {
        Self {
            qty_ident: qty_id,
            derived_as: None,
            ref_unit_ident: None,
            units: vec![],
        }
    }
}

pub(crate) type Item = syn::ItemStruct;

#[inline]
fn get_ident(expr: &syn::Expr) -> Option<&syn::Ident> {
    match expr {
        syn::Expr::Path(expr) => expr.path.get_ident(),
        _ => None,
    }
}

pub(crate) fn parse_args(args: TokenStream) -> Option<DerivedAs> {
    const ARGS_ERROR: &str =
        "Unknown argument(s) given to attribute `quantity`.";
    const OPERATOR_ERROR: &str =
        "Binary expression with '*' or '/' expected.";
    const OPERAND_ERROR: &str = "Identifier expected.";
    #[rustfmt::skip]
    const ARGS_HELP: &str =
        "Use `#[quantity]`\n\
         or  `#[quantity(<lhs_ident> * <rhs_ident>]`\n\
         or  `#[quantity(<lhs_ident> / <rhs_ident>]`.";

    if args.is_empty() {
        None
    } else if let Ok(expr) = syn::parse2::<syn::Expr>(args) {
        match expr {
            syn::Expr::Binary(args) => match args.op {
                syn::BinOp::Mul(_) | syn::BinOp::Div(_) => {
                    let lhs = get_ident(args.left.as_ref());
                    let rhs = get_ident(args.right.as_ref());
                    if lhs.is_none() || rhs.is_none() {
                        abort!(args, OPERAND_ERROR; help = ARGS_HELP)
                    }
                    Some(DerivedAs {
                        lhs_ident: lhs.unwrap().clone(),
                        op: args.op,
                        rhs_ident: rhs.unwrap().clone(),
                    })
                }
                _ => abort!(args, OPERATOR_ERROR; help = ARGS_HELP),
            },
            _ => abort!(expr, ARGS_ERROR; help = ARGS_HELP),
        }
    } else {
        abort_call_site!(ARGS_ERROR; help = ARGS_HELP)
    }
}

pub(crate) fn parse_item(item: TokenStream) -> Item {
    #[rustfmt::skip]
    const ITEM_HELP: &str =
        "Use `#[quantity]\n\
              ...\n\
              struct <ident> {}`.";

    match syn::parse2::<Item>(item.clone()) {
        Ok(item) => item,
        Err(error) => abort!(item, error; help = ITEM_HELP),
    }
}

fn check_struct(ast: &Item) {
    const GENERICS_ERROR: &str =
        "Given struct must not have generic parameters.";
    const FIELDS_ERROR: &str = "Given struct must not have fields.";
    let help = format!("Use `struct {} {{}};`", ast.ident);

    if !ast.generics.params.is_empty() {
        abort!(ast.generics, GENERICS_ERROR; help = help.as_str());
    }
    if !ast.fields.is_empty() {
        abort!(ast.fields, FIELDS_ERROR; help = help.as_str());
    }
}

#[inline]
fn is_unit_attr(attr: &syn::Attribute) -> bool {
    attr.path()
        .is_ident(&syn::Ident::new("unit", Span::call_site()))
}

#[inline]
fn is_ref_unit_attr(attr: &syn::Attribute) -> bool {
    attr.path()
        .is_ident(&syn::Ident::new("ref_unit", Span::call_site()))
}

const ARGS_LIST_ERROR: &str =
    "A comma-separated list of 2 to 5 arguments expected.";

#[rustfmt::skip]
const UNIT_ATTR_HELP: &str =
    "Use `#[unit(<ident>, \"<symbol>\", <si_prefix>, <scale>, \"<doc>\")]`\n\
     or  `#[unit(<ident>, \"<symbol>\", <si_prefix>, <scale>)]`\n\
     or  `#[unit(<ident>, \"<symbol>\", <scale>, \"<doc>\")]`\n\
     or  `#[unit(<ident>, \"<symbol>\", <scale>)]`\n\
     or  `#[unit(<ident>, \"<symbol>\", \"<doc>\")]`\n\
     or  `#[unit(<ident>, \"<symbol>\")]`.";

fn get_unit_attrs(
    attrs: &Vec<syn::Attribute>,
) -> (Vec<syn::Attribute>, Option<syn::Attribute>) {
    const MORE_THAN_ONE_REFUNIT_ATTR_ERROR: &str =
        "There can only be one `refunit` attribute.";
    const NO_UNIT_ATTR_ERROR: &str =
        "At least one unit description must be given via attribute `unit`.";

    let mut unit_attrs: Vec<syn::Attribute> = vec![];
    let mut opt_ref_unit_attr: Option<syn::Attribute> = None;
    for attr in attrs {
        if is_unit_attr(attr) {
            unit_attrs.push(attr.clone());
        } else if is_ref_unit_attr(attr) {
            if opt_ref_unit_attr.is_some() {
                abort!(attr, MORE_THAN_ONE_REFUNIT_ATTR_ERROR);
            }
            opt_ref_unit_attr = Some(attr.clone());
        }
    }
    if unit_attrs.is_empty() {
        abort_call_site!(NO_UNIT_ATTR_ERROR; help = UNIT_ATTR_HELP);
    }
    (unit_attrs, opt_ref_unit_attr)
}

impl syn::parse::Parse for UnitDef {
    fn parse(input: syn::parse::ParseStream) -> syn::Result<Self> {
        let mut unit_ident: syn::Ident = input.parse()?;
        let _: syn::Token![,] = input.parse()?;
        let symbol: syn::LitStr = input.parse()?;
        let opt_comma: Option<syn::Token![,]> = input.parse()?;
        if opt_comma.is_none() && !input.is_empty() {
            return Err(syn::Error::new(input.span(), ARGS_LIST_ERROR));
        }
        let mut si_prefix: Option<syn::Ident> = None;
        if input.peek(syn::Ident) {
            si_prefix = Some(input.parse::<syn::Ident>()?);
            let opt_comma: Option<syn::Token![,]> = input.parse()?;
            if opt_comma.is_none() && !input.is_empty() {
                return Err(syn::Error::new(input.span(), ARGS_LIST_ERROR));
            }
        };
        let mut scale: Option<syn::Lit> = None;
        if input.peek(syn::LitFloat) || input.peek(syn::LitInt) {
            scale = Some(input.parse::<syn::Lit>()?);
            let opt_comma: Option<syn::Token![,]> = input.parse()?;
            if opt_comma.is_none() && !input.is_empty() {
                return Err(syn::Error::new(input.span(), ARGS_LIST_ERROR));
            }
        };
        let mut doc: Option<syn::LitStr> = None;
        if input.peek(syn::LitStr) {
            doc = Some(input.parse::<syn::LitStr>()?);
        }
        // Check if input is exhausted:
        if !input.is_empty() {
            return Err(syn::Error::new(input.span(), ARGS_LIST_ERROR));
        };
        let name = syn::LitStr::new(
            unit_ident.to_string().replace('_', " ").as_str(),
            Span::call_site(),
        );
        unit_ident = syn::Ident::new(
            unit_ident.to_string().to_case(Case::UpperCamel).as_str(),
            Span::call_site(),
        );
        Ok(UnitDef {
            unit_ident,
            name,
            symbol,
            si_prefix,
            scale,
            doc,
        })
    }
}

fn ref_unit_def_from_attr(ref_unit_attr: &syn::Attribute) -> UnitDef {
    const WRONG_NUMBER_OF_ARGS_ERROR: &str =
        "2, 3 or 4 comma-separated args expected.";
    const WRONG_TYPE_OF_ARG_ERROR: &str = "No scale expected for ref_unit.";
    #[rustfmt::skip]
    const HELP: &str =
        "Use `#[ref_unit(<ident>, \"<symbol>\", <si_prefix>, \"<doc>\")]`\n\
         or  `#[ref_unit(<ident>, \"<symbol>\", <si_prefix>)]`\n\
         or  `#[ref_unit(<ident>, \"<symbol>\", \"<doc>\")]`\n\
         or  `#[ref_unit(<ident>, \"<symbol>\")]`.";

    match ref_unit_attr.parse_args::<UnitDef>() {
        Ok(mut unit_def) => {
            if unit_def.scale.is_some() {
                abort!(ref_unit_attr, WRONG_TYPE_OF_ARG_ERROR; help = HELP);
            }
            unit_def.scale = Some(syn::Lit::Float(syn::LitFloat::new(
                "1.0",
                Span::call_site(),
            )));
            unit_def
        }
        Err(_) => {
            abort!(ref_unit_attr, WRONG_NUMBER_OF_ARGS_ERROR; help = HELP);
        }
    }
}

fn unit_defs_with_scale_from_attrs(
    attrs: &Vec<syn::Attribute>,
) -> Vec<UnitDef> {
    const WRONG_NUMBER_OF_ARGS_ERROR: &str =
        "3, 4 or 5 comma-separated args expected.";
    const NO_SCALE_ERROR: &str = "<scale> arg expected.";
    #[rustfmt::skip]
    const HELP: &str =
        "Use `#[unit(<ident>, \"<symbol>\", <si_prefix>, <scale>, \"<doc>\")]`
         or  `#[unit(<ident>, \"<symbol>\", <si_prefix>, <scale>)]`\n\
         or  `#[unit(<ident>, \"<symbol>\", <scale>, \"<doc>\")]`\n\
         or  `#[unit(<ident>, \"<symbol>\", <scale>)]`.";

    let mut unit_defs: Vec<UnitDef> = vec![];
    for attr in attrs {
        match attr.parse_args::<UnitDef>() {
            Ok(unit_def) => {
                if unit_def.scale.is_none() {
                    abort!(attr, NO_SCALE_ERROR; help = HELP);
                }
                unit_defs.push(unit_def);
            }
            Err(_) => {
                abort!(attr, WRONG_NUMBER_OF_ARGS_ERROR; help = HELP);
            }
        }
    }
    unit_defs
}

fn unit_defs_without_scale_from_attrs(
    attrs: &Vec<syn::Attribute>,
) -> Vec<UnitDef> {
    const WRONG_NUMBER_OF_ARGS_ERROR: &str =
        "2 or 3 comma-separated args expected.";
    #[rustfmt::skip]
    const HELP: &str =
        "Use `#[unit(<ident>, \"<symbol>\", \"<doc>\")]`\n\
         or  `#[unit(<ident>, \"<symbol>\")]`.";

    let mut unit_defs: Vec<UnitDef> = vec![];
    for attr in attrs {
        match attr.parse_args::<UnitDef>() {
            Ok(unit_def) => {
                if unit_def.scale.is_some() || unit_def.si_prefix.is_some() {
                    abort!(attr, WRONG_NUMBER_OF_ARGS_ERROR; help = HELP);
                }
                unit_defs.push(unit_def);
            }
            Err(_) => {
                abort!(attr, WRONG_NUMBER_OF_ARGS_ERROR; help = HELP);
            }
        }
    }
    unit_defs
}

#[inline]
pub(crate) fn opt_lit_to_f64(lit: &Option<syn::Lit>) -> f64 {
    match lit.as_ref().unwrap() {
        syn::Lit::Float(f) => f.base10_parse().unwrap(),
        syn::Lit::Int(i) => i.base10_parse().unwrap(),
        _ => abort!(lit, "Internal error: unexspected non-numeric literal."),
    }
}

pub(crate) fn analyze(item_ast: &mut Item) -> QtyDef {
    check_struct(item_ast);
    let attrs = &mut item_ast.attrs;
    let (unit_attrs, opt_ref_unit_attr) = get_unit_attrs(attrs);
    attrs.retain(|attr| !(is_unit_attr(attr) || is_ref_unit_attr(attr)));
    let mut qty_def = QtyDef::new(item_ast.ident.clone());
    if let Some(ref_unit_attr) = opt_ref_unit_attr {
        let ref_unit_def = ref_unit_def_from_attr(&ref_unit_attr);
        qty_def.ref_unit_ident = Some(ref_unit_def.unit_ident.clone());
        qty_def.units = unit_defs_with_scale_from_attrs(&unit_attrs);
        qty_def.units.insert(0, ref_unit_def);
        qty_def.units.sort_by(|a, b| {
            let x = opt_lit_to_f64(&a.scale);
            let y = opt_lit_to_f64(&b.scale);
            x.partial_cmp(&y).unwrap()
        });
    } else {
        qty_def.units = unit_defs_without_scale_from_attrs(&unit_attrs);
        qty_def
            .units
            .sort_by(|a, b| a.name.value().cmp(&b.name.value()));
    }
    qty_def
}

fn codegen_attrs(attrs: &Vec<syn::Attribute>) -> TokenStream {
    let mut code = TokenStream::new();
    for attr in attrs {
        code = quote!(
            #code
            #attr
        );
    }
    code
}

fn codegen_unit_constants(
    enum_ident: &syn::Ident,
    units: &Vec<UnitDef>,
) -> TokenStream {
    let mut code = TokenStream::new();
    for unit in units {
        let unit_ident = unit.unit_ident.clone();
        let const_ident = syn::Ident::new(
            unit_ident.to_string().to_case(Case::UpperSnake).as_str(),
            Span::call_site(),
        );
        match &unit.doc {
            None => {
                code = quote!(
                    #code
                    pub const #const_ident: #enum_ident =
                        #enum_ident::#unit_ident;
                )
            }
            Some(doc) => {
                let unit_doc = doc.value();
                code = quote!(
                    #code
                    #[doc = #unit_doc]
                    pub const #const_ident: #enum_ident =
                        #enum_ident::#unit_ident;
                )
            }
        };
    }
    code
}

fn codegen_impl_mul_amnt_unit(
    qty_ident: &syn::Ident,
    unit_enum_ident: &syn::Ident,
) -> TokenStream {
    quote!(
        impl Mul<#unit_enum_ident> for AmountT {
            type Output = #qty_ident;
            #[inline(always)]
            fn mul(self, rhs: #unit_enum_ident) -> Self::Output {
                Self::Output::new(self, rhs)
            }
        }
        impl Mul<AmountT> for #unit_enum_ident {
            type Output = #qty_ident;
            #[inline(always)]
            fn mul(self, rhs: AmountT) -> Self::Output {
                Self::Output::new(rhs, self)
            }
        }
    )
}

fn codegen_qty_single_unit(
    qty_ident: &syn::Ident,
    unit_enum_ident: &syn::Ident,
    unit_ident: &syn::Ident,
    unit_name: &syn::LitStr,
    unit_symbol: &syn::LitStr,
) -> TokenStream {
    let unit_doc = format!("Unit of quantity `{}`.", qty_ident);
    quote!(
        #[doc = #unit_doc]
        #[derive(Copy, Clone, Debug, Eq, PartialEq)]
        #[cfg_attr(feature = "serde", derive(::serde::Deserialize, ::serde::Serialize))]
        pub enum #unit_enum_ident {
            #unit_ident,
        }
        impl #unit_enum_ident {
            const VARIANTS: [Self; 1] = [Self::#unit_ident];
        }
        impl Unit for #unit_enum_ident {
            type QuantityType = #qty_ident;
            fn iter() -> impl Iterator<Item = Self> {
                Self::VARIANTS.iter().cloned()
            }
            fn name(&self) -> String { #unit_name.to_owned() }
            fn symbol(&self) -> String { #unit_symbol.to_owned() }
            fn si_prefix(&self) -> Option<SIPrefix> { None }
        }
        #[derive(Copy, Clone, Debug)]
        #[cfg_attr(feature = "serde", derive(::serde::Deserialize, ::serde::Serialize))]
        pub struct #qty_ident {
            amount: AmountT
        }
        impl Quantity for #qty_ident {
            type UnitType = #unit_enum_ident;

            #[inline(always)]
            fn new(amount: AmountT, _unit: Self::UnitType) -> Self {
                Self { amount }
            }

            #[inline(always)]
            fn amount(&self) -> AmountT {
                self.amount
            }

            #[inline(always)]
            fn unit(&self) -> Self::UnitType {
                Self::UnitType::#unit_ident
            }
        }
        impl Add<Self> for #qty_ident {
            type Output = Self;
            #[inline(always)]
            fn add(self, rhs: Self) -> Self::Output {
                Self::new(self.amount() + rhs.amount(), self.unit())
            }
        }
        impl Sub<Self> for #qty_ident {
            type Output = Self;
            #[inline(always)]
            fn sub(self, rhs: Self) -> Self::Output {
                Self::new(self.amount() - rhs.amount(), self.unit())
            }
        }
        impl Div<Self> for #qty_ident {
            type Output = AmountT;
            #[inline(always)]
            fn div(self, rhs: Self) -> Self::Output {
                self.amount() / rhs.amount()
            }
        }
    )
}

fn codegen_unit_variants(units: &Vec<UnitDef>) -> TokenStream {
    let mut code = TokenStream::new();
    for unit in units {
        let unit_ident = unit.unit_ident.clone();
        match &unit.doc {
            None => {
                code = quote!(
                    #code
                    #unit_ident,
                )
            }
            Some(doc) => {
                let unit_doc = doc.value();
                code = quote!(
                    #code
                    #[doc = #unit_doc]
                    #unit_ident,
                )
            }
        };
    }
    code
}

fn codegen_unit_variants_array(
    unit_enum_ident: &syn::Ident,
    units: &Vec<UnitDef>,
) -> TokenStream {
    let mut code = TokenStream::new();
    let n_variants = units.len();
    for unit in units {
        let unit_ident = unit.unit_ident.clone();
        code = quote!(
            #code
            Self::#unit_ident,
        );
    }
    code = quote!(
        impl #unit_enum_ident {
            const VARIANTS: [Self; #n_variants] = [#code];
        }
    );
    code
}

fn codegen_fn_name(units: &Vec<UnitDef>) -> TokenStream {
    let mut code = TokenStream::new();
    for unit in units {
        let unit_ident = unit.unit_ident.clone();
        let unit_name = unit.name.clone();
        code = quote!(
            #code
            Self::#unit_ident => #unit_name.to_owned(),
        )
    }
    quote!(
        fn name(&self) -> String {
            match self {
                #code
            }
        }
    )
}

fn codegen_fn_symbol(units: &Vec<UnitDef>) -> TokenStream {
    let mut code = TokenStream::new();
    for unit in units {
        let unit_ident = unit.unit_ident.clone();
        let unit_symbol = unit.symbol.clone();
        code = quote!(
            #code
            Self::#unit_ident => #unit_symbol.to_owned(),
        )
    }
    quote!(
        fn symbol(&self) -> String {
            match self {
                #code
            }
        }
    )
}

fn codegen_impl_unit_display(unit_enum_ident: &syn::Ident) -> TokenStream {
    quote!(
        impl fmt::Display for #unit_enum_ident {
            #[inline(always)]
            fn fmt(&self, f: &mut fmt::Formatter<'_>) -> fmt::Result {
                <Self as Unit>::fmt(self, f)
            }
        }
    )
}

fn codegen_impl_quantity(
    qty_ident: &syn::Ident,
    unit_enum_ident: &syn::Ident,
) -> TokenStream {
    quote!(
        #[derive(Copy, Clone, Debug)]
        #[cfg_attr(feature = "serde", derive(::serde::Deserialize, ::serde::Serialize))]
        pub struct #qty_ident {
            amount: AmountT,
            unit: #unit_enum_ident
        }
        impl Quantity for #qty_ident {
            type UnitType = #unit_enum_ident;
            #[inline(always)]
            fn new(amount: AmountT, unit: Self::UnitType) -> Self {
                Self { amount, unit }
            }
            #[inline(always)]
            fn amount(&self) -> AmountT {
                self.amount
            }
            #[inline(always)]
            fn unit(&self) -> Self::UnitType {
                self.unit
            }
        }
    )
}

fn codegen_qty_without_ref_unit(
    qty_ident: &syn::Ident,
    unit_enum_ident: &syn::Ident,
    units: &Vec<UnitDef>,
) -> TokenStream {
    let code_unit_variants = codegen_unit_variants(units);
    let code_unit_variants_array =
        codegen_unit_variants_array(unit_enum_ident, units);
    let code_fn_name = codegen_fn_name(units);
    let code_fn_symbol = codegen_fn_symbol(units);
    let unit_doc = format!("Unit of quantity `{}`.", qty_ident);
    let code_impl_quantity =
        codegen_impl_quantity(qty_ident, unit_enum_ident);
    quote!(
        #code_impl_quantity
        #[doc = #unit_doc]
        #[derive(Copy, Clone, Debug, Eq, PartialEq)]
        #[cfg_attr(feature = "serde", derive(::serde::Deserialize, ::serde::Serialize))]
        pub enum #unit_enum_ident { #code_unit_variants }
        #code_unit_variants_array
        impl Unit for #unit_enum_ident {
            type QuantityType = #qty_ident;
            fn iter() -> impl Iterator<Item = Self> {
                Self::VARIANTS.iter().cloned()
            }
            #code_fn_name
            #code_fn_symbol
            fn si_prefix(&self) -> Option<SIPrefix> { None }
        }
        impl Eq for #qty_ident {}
        impl PartialEq<Self> for #qty_ident {
            #[inline(always)]
            fn eq(&self, other: &Self) -> bool {
                <Self as Quantity>::eq(self, other)
            }
        }
        impl PartialOrd for #qty_ident {
            #[inline(always)]
            fn partial_cmp(&self, other: &Self) -> Option<Ordering> {
                <Self as Quantity>::partial_cmp(self, other)
            }
        }
        impl Add<Self> for #qty_ident {
            type Output = Self;
            #[inline(always)]
            fn add(self, rhs: Self) -> Self::Output {
                <Self as Quantity>::add(self, rhs)
            }
        }
        impl Sub<Self> for #qty_ident {
            type Output = Self;
            #[inline(always)]
            fn sub(self, rhs: Self) -> Self::Output {
                <Self as Quantity>::sub(self, rhs)
            }
        }
        impl Div<Self> for #qty_ident {
            type Output = AmountT;
            #[inline(always)]
            fn div(self, rhs: Self) -> Self::Output {
                <Self as Quantity>::div(self, rhs)
            }
        }
    )
}

fn codegen_fn_si_prefix(units: &Vec<UnitDef>) -> TokenStream {
    let mut code = TokenStream::new();
    for unit in units {
        if unit.si_prefix.is_some() {
            let unit_ident = &unit.unit_ident;
            let unit_si_prefix: &syn::Ident =
                unit.si_prefix.as_ref().unwrap();
            code = quote!(
                #code
                Self::#unit_ident =>
                    Some(SIPrefix::#unit_si_prefix),
            )
        }
    }
    quote!(
        fn si_prefix(&self) -> Option<SIPrefix> {
            match self {
                #code
                _ => None,
            }
        }
    )
}

fn codegen_fn_scale(units: &Vec<UnitDef>) -> TokenStream {
    let mut code = TokenStream::new();
    for unit in units {
        if unit.scale.is_some() {
            let unit_ident = &unit.unit_ident;
            let unit_scale: &syn::Lit = unit.scale.as_ref().unwrap();
            code = quote!(
                #code
                Self::#unit_ident => Amnt!(#unit_scale),
            )
        } else {
            // should not happen!
            abort_call_site!("Missing scale detected!")
        }
    }
    quote!(
        fn scale(&self) -> AmountT {
            match self {
                #code
            }
        }
    )
}

fn codegen_qty_with_ref_unit(
    qty_ident: &syn::Ident,
    unit_enum_ident: &syn::Ident,
    ref_unit_ident: &syn::Ident,
    units: &Vec<UnitDef>,
) -> TokenStream {
    let code_unit_variants = codegen_unit_variants(units);
    let code_unit_variants_array =
        codegen_unit_variants_array(unit_enum_ident, units);
    let code_fn_name = codegen_fn_name(units);
    let code_fn_symbol = codegen_fn_symbol(units);
    let code_fn_si_prefix = codegen_fn_si_prefix(units);
    let code_fn_scale = codegen_fn_scale(units);
    let unit_doc = format!("Unit of quantity `{}`.", qty_ident);
    let code_impl_quantity =
        codegen_impl_quantity(qty_ident, unit_enum_ident);
    quote!(
        #code_impl_quantity
        #[doc = #unit_doc]
        #[derive(Copy, Clone, Debug, Eq, PartialEq)]
        #[cfg_attr(feature = "serde", derive(::serde::Deserialize, ::serde::Serialize))]
        pub enum #unit_enum_ident {
            #code_unit_variants
        }
        #code_unit_variants_array
        impl Unit for #unit_enum_ident {
            type QuantityType = #qty_ident;
            fn iter() -> impl Iterator<Item = Self> {
                Self::VARIANTS.iter().cloned()
            }
            #code_fn_name
            #code_fn_symbol
            #code_fn_si_prefix
        }
        impl LinearScaledUnit for #unit_enum_ident {
            const REF_UNIT: Self = Self::#ref_unit_ident;
            #code_fn_scale
        }
        impl HasRefUnit for #qty_ident {
            const REF_UNIT: #unit_enum_ident =
                #unit_enum_ident::#ref_unit_ident;
        }
        impl Eq for #qty_ident {}
        impl PartialEq<Self> for #qty_ident {
            #[inline(always)]
            fn eq(&self, other: &Self) -> bool {
                <Self as HasRefUnit>::eq(self, other)
            }
        }
        impl PartialOrd for #qty_ident {
            #[inline(always)]
            fn partial_cmp(&self, other: &Self) -> Option<Ordering> {
                <Self as HasRefUnit>::partial_cmp(self, other)
            }
        }
        impl Add<Self> for #qty_ident {
            type Output = Self;
            #[inline(always)]
            fn add(self, rhs: Self) -> Self::Output {
                <Self as HasRefUnit>::add(self, rhs)
            }
        }
        impl Sub<Self> for #qty_ident {
            type Output = Self;
            #[inline(always)]
            fn sub(self, rhs: Self) -> Self::Output {
                <Self as HasRefUnit>::sub(self, rhs)
            }
        }
        impl Div<Self> for #qty_ident {
            type Output = AmountT;
            #[inline(always)]
            fn div(self, rhs: Self) -> Self::Output {
                <Self as HasRefUnit>::div(self, rhs)
            }
        }
    )
}

fn codegen_impl_std_traits(qty_ident: &syn::Ident) -> TokenStream {
    quote!(
        impl fmt::Display for #qty_ident {
            #[inline(always)]
            fn fmt(&self, f: &mut fmt::Formatter<'_>) -> fmt::Result {
                <Self as Quantity>::fmt(self, f)
            }
        }
        impl Mul<#qty_ident> for AmountT {
            type Output = #qty_ident;
            #[inline(always)]
            fn mul(self, rhs: #qty_ident) -> Self::Output {
                Self::Output::new(self * rhs.amount(), rhs.unit())
            }
        }
        impl Mul<AmountT> for #qty_ident {
            type Output = Self;
            #[inline(always)]
            fn mul(self, rhs: AmountT) -> Self::Output {
                Self::Output::new(self.amount() * rhs, self.unit())
            }
        }
        impl Div<AmountT> for #qty_ident {
            type Output = Self;
            #[inline(always)]
            fn div(self, rhs: AmountT) -> Self::Output {
                Self::Output::new(self.amount() / rhs, self.unit())
            }
        }
        impl<TQ: Quantity> Mul<Rate<TQ, Self>> for #qty_ident {
            type Output = TQ;

            fn mul(self, rhs: Rate<TQ, Self>) -> Self::Output {
                let amnt: AmountT =
                    (self / rhs.per_unit().as_qty()) / rhs.per_unit_multiple();
                Self::Output::new(amnt * rhs.term_amount(), rhs.term_unit())
            }
        }
        impl<PQ: Quantity> Div<Rate<Self, PQ>> for #qty_ident {
            type Output = PQ;

            fn div(self, rhs: Rate<Self, PQ>) -> Self::Output {
                let amnt: AmountT =
                    (self / rhs.term_unit().as_qty()) / rhs.term_amount();
                Self::Output::new(
                    amnt * rhs.per_unit_multiple(),
                    rhs.per_unit()
                )
            }
        }
    )
}

fn codegen_impl_qty_sqared(
    res_qty_ident: &syn::Ident,
    qty_ident: &syn::Ident,
) -> TokenStream {
    quote!(
        impl Mul<Self> for #qty_ident
        where
            Self: HasRefUnit,
        {
            type Output = #res_qty_ident;
            fn mul(self, rhs: Self) -> Self::Output {
                let scale =
                    self.unit().scale() * rhs.unit().scale();
                match Self::Output::unit_from_scale(scale) {
                    Some(unit) =>
                        Self::Output::new(self.amount() * rhs.amount(), unit),
                    None =>
                        <Self::Output as HasRefUnit>::_fit(
                            self.amount() * rhs.amount() * scale
                        )
                }
            }
        }
        impl<'a> Mul<#qty_ident> for &'a #qty_ident
        where
            #qty_ident: Mul<#qty_ident>,
        {
            type Output = <#qty_ident as Mul<#qty_ident>>::Output;
            #[inline(always)]
            fn mul(self, rhs: #qty_ident) -> Self::Output {
                Mul::mul(*self, rhs)
            }
        }
        impl Mul<&Self> for #qty_ident
        where
            Self: Mul<Self>,
        {
            type Output = <Self as Mul<Self>>::Output;
            #[inline(always)]
            fn mul(self, rhs: &Self) -> Self::Output {
                Mul::mul(self, *rhs)
            }
        }
        impl Mul<Self> for &#qty_ident
        where
            #qty_ident: Mul<#qty_ident>,
        {
            type Output = <#qty_ident as Mul<#qty_ident>>::Output;
            #[inline(always)]
            fn mul(self, rhs: Self) -> Self::Output {
                Mul::mul(*self, *rhs)
            }
        }
    )
}

fn codegen_impl_qty_mul_qty(
    res_qty_ident: &syn::Ident,
    lhs_qty_ident: &syn::Ident,
    rhs_qty_ident: &syn::Ident,
) -> TokenStream {
    quote!(
        impl Mul<#rhs_qty_ident> for #lhs_qty_ident
        where
            Self: HasRefUnit,
            #rhs_qty_ident: HasRefUnit,
        {
            type Output = #res_qty_ident;
            fn mul(self, rhs: #rhs_qty_ident) -> Self::Output {
                let scale =
                    self.unit().scale() * rhs.unit().scale();
                match Self::Output::unit_from_scale(scale) {
                    Some(unit) =>
                        Self::Output::new(self.amount() * rhs.amount(), unit),
                    None =>
                        <Self::Output as HasRefUnit>::_fit(
                            self.amount() * rhs.amount() * scale
                        )
                }
            }
        }
        impl<'a> Mul<#rhs_qty_ident> for &'a #lhs_qty_ident
        where
            #lhs_qty_ident: Mul<#rhs_qty_ident>,
        {
            type Output = <#lhs_qty_ident as Mul<#rhs_qty_ident>>::Output;
            #[inline(always)]
            fn mul(self, rhs: #rhs_qty_ident) -> Self::Output {
                Mul::mul(*self, rhs)
            }
        }
        impl Mul<&#rhs_qty_ident> for #lhs_qty_ident
        where
            Self: Mul<#rhs_qty_ident>,
        {
            type Output = <Self as Mul<#rhs_qty_ident>>::Output;
            #[inline(always)]
            fn mul(self, rhs: &#rhs_qty_ident) -> Self::Output {
                Mul::mul(self, *rhs)
            }
        }
        impl Mul<&#rhs_qty_ident> for &#lhs_qty_ident
        where
            #lhs_qty_ident: Mul<#rhs_qty_ident>,
        {
            type Output = <#lhs_qty_ident as Mul<#rhs_qty_ident>>::Output;
            #[inline(always)]
            fn mul(self, rhs: &#rhs_qty_ident) -> Self::Output {
                Mul::mul(*self, *rhs)
            }
        }
    )
}

fn codegen_impl_mul_qties(
    res_qty_ident: &syn::Ident,
    lhs_qty_ident: &syn::Ident,
    rhs_qty_ident: &syn::Ident,
) -> TokenStream {
    if lhs_qty_ident == rhs_qty_ident {
        let code = codegen_impl_qty_sqared(res_qty_ident, lhs_qty_ident);
        quote!(
            #code
        )
    } else {
        let code_lr = codegen_impl_qty_mul_qty(
            res_qty_ident,
            lhs_qty_ident,
            rhs_qty_ident,
        );
        let code_rl = codegen_impl_qty_mul_qty(
            res_qty_ident,
            rhs_qty_ident,
            lhs_qty_ident,
        );
        quote!(
            #code_lr
            #code_rl
        )
    }
}

fn codegen_impl_div_qties(
    res_qty_ident: &syn::Ident,
    lhs_qty_ident: &syn::Ident,
    rhs_qty_ident: &syn::Ident,
) -> TokenStream {
    quote!(
        impl Div<#rhs_qty_ident> for #lhs_qty_ident
        where
            Self: HasRefUnit,
            #rhs_qty_ident: HasRefUnit,
        {
            type Output = #res_qty_ident;
            fn div(self, rhs: #rhs_qty_ident) -> Self::Output {
                let scale =
                    self.unit().scale() / rhs.unit().scale();
                match Self::Output::unit_from_scale(scale) {
                    Some(unit) =>
                        Self::Output::new(self.amount() / rhs.amount(), unit),
                    None =>
                        <Self::Output as HasRefUnit>::_fit(
                            (self.amount() / rhs.amount()) * scale
                        )
                }
            }
        }
        impl<'a> Div<#rhs_qty_ident> for &'a #lhs_qty_ident
        where
            #lhs_qty_ident: Div<#rhs_qty_ident>,
        {
            type Output = <#lhs_qty_ident as Div<#rhs_qty_ident>>::Output;
            #[inline(always)]
            fn div(self, rhs: #rhs_qty_ident) -> Self::Output {
                Div::div(*self, rhs)
            }
        }
        impl Div<&#rhs_qty_ident> for #lhs_qty_ident
        where
            Self: Div<#rhs_qty_ident>,
        {
            type Output = <Self as Div<#rhs_qty_ident>>::Output;
            #[inline(always)]
            fn div(self, rhs: &#rhs_qty_ident) -> Self::Output {
                Div::div(self, *rhs)
            }
        }
        impl Div<&#rhs_qty_ident> for &#lhs_qty_ident
        where
            #lhs_qty_ident: Div<#rhs_qty_ident>,
        {
            type Output = <#lhs_qty_ident as Div<#rhs_qty_ident>>::Output;
            #[inline(always)]
            fn div(self, rhs: &#rhs_qty_ident) -> Self::Output {
                Div::div(*self, *rhs)
            }
        }
    )
}

fn codegen_impl_mul_div_qties(
    qty_ident: &syn::Ident,
    derived_as: &Option<DerivedAs>,
) -> TokenStream {
    match derived_as {
        None => TokenStream::new(),
        Some(derived_as) => {
            let lhs_qty_ident = &derived_as.lhs_ident;
            let rhs_qty_ident = &derived_as.rhs_ident;
            match derived_as.op {
                syn::BinOp::Mul(_) => {
                    let code_impl_mul = codegen_impl_mul_qties(
                        qty_ident,
                        lhs_qty_ident,
                        rhs_qty_ident,
                    );
                    let code_impl_res_div_rhs = codegen_impl_div_qties(
                        lhs_qty_ident,
                        qty_ident,
                        rhs_qty_ident,
                    );
                    let code_impl_res_div_lhs =
                        if lhs_qty_ident == rhs_qty_ident {
                            TokenStream::new()
                        } else {
                            codegen_impl_div_qties(
                                rhs_qty_ident,
                                qty_ident,
                                lhs_qty_ident,
                            )
                        };
                    quote!(
                        #code_impl_mul
                        #code_impl_res_div_rhs
                        #code_impl_res_div_lhs
                    )
                }
                syn::BinOp::Div(_) => {
                    let code_impl_div = codegen_impl_div_qties(
                        qty_ident,
                        lhs_qty_ident,
                        rhs_qty_ident,
                    );
                    let code_impl_mul_res = codegen_impl_mul_qties(
                        lhs_qty_ident,
                        qty_ident,
                        rhs_qty_ident,
                    );
                    let code_impl_div_res = codegen_impl_div_qties(
                        rhs_qty_ident,
                        lhs_qty_ident,
                        qty_ident,
                    );
                    quote!(
                        #code_impl_div
                        #code_impl_mul_res
                        #code_impl_div_res
                    )
                }
                _ => {
                    // should not happen!
                    abort_call_site!("Internal error: wrong op detected!")
                }
            }
        }
    }
}

pub(crate) fn codegen(
    qty_def: &QtyDef,
    attrs: &Vec<syn::Attribute>,
) -> TokenStream {
    let qty_ident = qty_def.qty_ident.clone();
    let unit_enum_ident =
        syn::Ident::new(&*format!("{}Unit", qty_ident), Span::call_site());
    let code_attrs = codegen_attrs(attrs);
    let code_qty = if qty_def.units.len() == 1 {
        let unit_ident = qty_def.units[0].unit_ident.clone();
        let unit_name = qty_def.units[0].name.clone();
        let unit_symbol = qty_def.units[0].symbol.clone();
        codegen_qty_single_unit(
            &qty_ident,
            &unit_enum_ident,
            &unit_ident,
            &unit_name,
            &unit_symbol,
        )
    } else if qty_def.ref_unit_ident.is_none() {
        codegen_qty_without_ref_unit(
            &qty_ident,
            &unit_enum_ident,
            &qty_def.units,
        )
    } else {
        let ref_unit_ident: &syn::Ident =
            qty_def.ref_unit_ident.as_ref().unwrap();
        codegen_qty_with_ref_unit(
            &qty_ident,
            &unit_enum_ident,
            ref_unit_ident,
            &qty_def.units,
        )
    };
    let code_unit_consts =
        codegen_unit_constants(&unit_enum_ident, &qty_def.units);
    let code_impl_mul =
        codegen_impl_mul_amnt_unit(&qty_ident, &unit_enum_ident);
    let code_impl_unit_display = codegen_impl_unit_display(&unit_enum_ident);
    let code_impl_std_traits = codegen_impl_std_traits(&qty_ident);
    let code_mul_div_base_qties =
        codegen_impl_mul_div_qties(&qty_ident, &qty_def.derived_as);
    quote!(
        #code_attrs
        #code_qty
        #code_unit_consts
        #code_impl_mul
        #code_impl_unit_display
        #code_impl_std_traits
        #code_mul_div_base_qties
    )
}

#[cfg(test)]
mod internal_fn_tests {
    use super::*;

    fn get_ast_basic_qty() -> Item {
        let item = quote!(
            #[ref_unit(
                Megapop,
                "Mp",
                MEGA,
                "1000000·p\nFoo's reference unit"
            )]
            #[unit(Gigapop, "Gp", GIGA, 1000, "1000000000·p")]
            #[unit(Pop, "p", 0.000001)]
            /// Quantity Foo
            struct Foo {}
        );
        parse_item(item)
    }

    #[test]
    fn test_parse_basic_qty() {
        let item = get_ast_basic_qty();
        assert_eq!(item.ident.to_string(), "Foo");
        assert!(item.fields.is_empty());
        assert_eq!(item.attrs.len(), 4);
        let attr_names: Vec<String> = item
            .attrs
            .iter()
            .map(|attr| {
                attr.path().segments.first().unwrap().ident.to_string()
            })
            .collect();
        assert_eq!(attr_names, ["ref_unit", "unit", "unit", "doc"]);
    }

    #[test]
    fn test_analyze_basic_qty() {
        let mut item = get_ast_basic_qty();
        let qty_def = analyze(&mut item);
        assert_eq!(item.attrs.len(), 1);
        assert_eq!(
            item.attrs
                .first()
                .unwrap()
                .path()
                .segments
                .first()
                .unwrap()
                .ident
                .to_string(),
            "doc"
        );
        assert_eq!(qty_def.qty_ident.to_string(), "Foo");
        assert_eq!(qty_def.ref_unit_ident.unwrap().to_string(), "Megapop");
        assert_eq!(qty_def.units.len(), 3);
        let unit = &qty_def.units[0];
        assert_eq!(unit.unit_ident.to_string(), "Pop");
        assert_eq!(unit.name.value(), "Pop");
        assert_eq!(unit.symbol.value(), "p");
        assert!(unit.si_prefix.is_none());
        assert_eq!(opt_lit_to_f64(&unit.scale), 0.000001);
        assert!(unit.doc.is_none());
        let unit = &qty_def.units[1];
        assert_eq!(unit.unit_ident.to_string(), "Megapop");
        assert_eq!(unit.name.value(), "Megapop");
        assert_eq!(unit.symbol.value(), "Mp");
        assert_eq!(unit.si_prefix.as_ref().unwrap().to_string(), "MEGA");
        assert_eq!(opt_lit_to_f64(&unit.scale), 1.);
        assert_eq!(
            unit.doc.as_ref().unwrap().value(),
            "1000000·p\nFoo's reference unit"
        );
        let unit = &qty_def.units[2];
        assert_eq!(unit.unit_ident.to_string(), "Gigapop");
        assert_eq!(unit.name.value(), "Gigapop");
        assert_eq!(unit.symbol.value(), "Gp");
        assert_eq!(unit.si_prefix.as_ref().unwrap().to_string(), "GIGA");
        assert_eq!(opt_lit_to_f64(&unit.scale), 1000.);
        assert_eq!(unit.doc.as_ref().unwrap().value(), "1000000000·p");
    }

    #[test]
    fn test_codegen_remaining_attrs() {
        let mut item = get_ast_basic_qty();
        let _qty_def = analyze(&mut item);
        let code_attrs = codegen_attrs(&item.attrs);
        assert!(!code_attrs.is_empty());
        let doc = code_attrs.to_string();
        assert_eq!(doc, "# [doc = r\" Quantity Foo\"]");
    }

    #[test]
    fn test_codegen_unit_variants() {
        let mut item = get_ast_basic_qty();
        let qty_def = analyze(&mut item);
        let code_unit_variants = codegen_unit_variants(&qty_def.units);
        #[rustfmt::skip]
        assert_eq!(
            code_unit_variants.to_string(),
            "Pop , \
             # [doc = \"1000000·p\\nFoo's reference unit\"] Megapop , \
             # [doc = \"1000000000·p\"] Gigapop ,"
        );
    }

    fn get_ast_derived_qty() -> (Option<DerivedAs>, Item) {
        let args = quote!(Foo * Foo);
        let item = quote!(
            #[ref_unit(
                Megapop2,
                "Mp²",
                MEGA,
                "1000000·p²\nFooSquards's reference unit"
            )]
            #[unit(Gigapop2, "Gp²", GIGA, 1000, "1000000000·p")]
            #[unit(Pop2, "p²", 0.000001)]
            /// Quantity FooSquared
            struct FooSquared {}
        );
        (parse_args(args), parse_item(item))
    }

    #[test]
    fn test_parse_derived_qty() {
        let (opt_derived_as, item) = get_ast_derived_qty();
        assert!(opt_derived_as.is_some());
        let derived_as = opt_derived_as.unwrap();
        assert!(matches!(derived_as.op, syn::BinOp::Mul(_)));
        assert_eq!(derived_as.lhs_ident.to_string(), "Foo");
        assert_eq!(derived_as.rhs_ident.to_string(), "Foo");
        assert_eq!(item.ident.to_string(), "FooSquared");
        assert!(item.fields.is_empty());
        assert_eq!(item.attrs.len(), 4);
    }
}
