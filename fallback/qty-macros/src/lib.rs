// ---------------------------------------------------------------------------
// Copyright:   (c) 2021 ff. Michael Amrhein (michael@adrhinum.de)
// License:     This program is part of a larger application. For license
//              details please read the file LICENSE.TXT provided together
//              with the application.
// ---------------------------------------------------------------------------
// $Source$
// $Revision$

#![doc = include_str ! ("../README.md")]

mod quantity_attr_helper;

use ::convert_case::{Case, Casing};
use ::proc_macro::TokenStream;
use ::proc_macro2::{Span, TokenStream as TokenStream2};
use ::proc_macro_error::proc_macro_error;
use ::quote::quote;
use ::syn::{parse_macro_input, Ident, ItemEnum};

use crate::quantity_attr_helper::{analyze, codegen, parse_args, parse_item};

/// Derives a constant for each variant of a fieldless enum.
///
/// # Panics
///
/// The macro panics in the following cases:
///
/// * The attributed item is not an enum.
/// * The enum is not a fieldless enum (aka C-like enum).
///
/// # Example
///
/// ```rust
/// # use qty_macros::VariantsAsConstants;
/// # #[allow(non_camel_case_types)]
/// #[derive(VariantsAsConstants)]
/// enum TestEnum {
///     MultiCamelCase,
///     snake_case,
///     simple,
///     ALL_UPPER,
/// }
/// ```
///
/// This results in the following additional code:
///
/// ```rust
/// # #[allow(non_camel_case_types)]
/// # enum TestEnum {
/// #     MultiCamelCase,
/// #     snake_case,
/// #     simple,
/// #     ALL_UPPER,
/// # }
/// pub const MULTI_CAMEL_CASE: TestEnum = TestEnum::MultiCamelCase;
/// pub const SNAKE_CASE: TestEnum = TestEnum::snake_case;
/// pub const SIMPLE: TestEnum = TestEnum::simple;
/// pub const ALL_UPPER: TestEnum = TestEnum::ALL_UPPER;
/// ```
#[proc_macro_derive(VariantsAsConstants)]
pub fn derive_variants_as_constants(input: TokenStream) -> TokenStream {
    let enum_def = parse_macro_input!(input as ItemEnum);
    let mut output = TokenStream2::new();
    let enum_ident = enum_def.ident;
    // check and gather const declarations for variants
    for variant in enum_def.variants {
        if !variant.fields.is_empty() {
            panic!("The given enum must be a fieldless enum.");
        }
        let variant_ident = variant.ident;
        let const_ident = Ident::new(
            variant_ident.to_string().to_case(Case::UpperSnake).as_str(),
            Span::call_site(),
        );
        output = quote!(
            #output
            pub const #const_ident: #enum_ident = #enum_ident::#variant_ident;
        );
    }
    output.into()
}

/// Derives a function `iter` that returns an iterator over the variants of a
/// fieldless enum.
///
/// # Panics
///
/// The macro panics in the following cases:
///
/// * The attributed item is not an enum.
/// * The enum is not a fieldless enum (aka C-like enum).
///
/// # Example
///
/// ```rust
/// # use qty_macros::VariantsAsConstants;
/// #[derive(VariantsAsConstants)]
/// enum Color {
///     Red,
///     Green,
///     Blue,
/// }
/// ```
///
/// This results in the following additional code:
///
/// ```rust
/// # enum Color {
/// #     Red,
/// #     Green,
/// #     Blue,
/// # }
/// impl Color {
///     const VARIANTS: [Self; 3usize] =
///         [Self::Red, Self::Green, Self::Blue];
///     #[doc = "Returns an iterator over the variants of `Self`."]
///     #[inline(always)]
///     pub fn iter() -> core::slice::Iter<'static, Self> {
///         Self::VARIANTS.iter()
///     }
/// }
/// ```
#[proc_macro_derive(EnumIter)]
pub fn derive_enum_iter(input: TokenStream) -> TokenStream {
    let enum_def = parse_macro_input!(input as ItemEnum);
    let enum_ident = enum_def.ident;
    let mut output = TokenStream2::new();
    // check and gather variants
    for variant in &enum_def.variants {
        if !variant.fields.is_empty() {
            panic!("The given enum must be a fieldless enum.");
        }
        let variant_ident = &variant.ident;
        output = quote!(
            #output
            Self::#variant_ident,
        );
    }
    let n_variants = &enum_def.variants.len();
    // create impl for fn iter
    output = quote!(
        impl #enum_ident {
            const VARIANTS: [Self; #n_variants] = [#output];
            #[doc = "Returns an iterator over the variants of `Self`."]
            #[inline(always)]
            pub fn iter() -> core::slice::Iter<'static, Self> {
                Self::VARIANTS.iter()
            }
        }
    );
    output.into()
}

/// Generates an enum with the given units (incl. the refunit, if given) as
/// variants, an implemention of trait `Unit` for this enum and a type alias of
/// `Qty` with the enum as parameter and named after the given struct.
///
/// In addition, it creates a constant for each enum variant, thus providing a
/// constant for each unit.
///
/// This implies that the identifiers of all units over all defined
/// quantitities have to be unique!
///
/// The attribute `#[quantity]` can optionally be followed by an attribute
/// `#[ref_unit]` and must be followed by at least one attribute `#[unit]`.
///
/// To define a quantity with a reference unit, use one of the following forms
/// of the ref_unit attribute
///
/// `#[ref_unit(<ident>, "<symbol>", <si_prefix>, "<doc>")]`
/// `#[ref_unit(<ident>, "<symbol>", <si_prefix>)]`
/// `#[ref_unit(<ident>, "<symbol>", "<doc>")]`,
/// `#[ref_unit(<ident>, "<symbol>")]`,
///
/// followed by one ore more unit attributes in one of the following forms
///
/// `#[unit(<ident>, "<symbol>", <si_prefix>, <scale>, "<doc>")]`
/// `#[unit(<ident>, "<symbol>", <si_prefix>, <scale>)]`
/// `#[unit(<ident>, "<symbol>", <scale>, "<doc>")]`.
/// `#[unit(<ident>, "<symbol>", <scale>)]`.
///
/// To define a quantity without a reference unit, use one ore more unit
/// attributes in one of the following forms
///
/// `#[unit(<ident>, "<symbol>", "<doc>")]`
/// `#[unit(<ident>, "<symbol>")]`.
///
/// # Panics
///
/// The macro panics in the followong cases:
///
/// * Invalid arguments given to the attribute `#[quantity]`.
/// * The given item is not a struct.
/// * The given struct does have generic parameters and/or fields.
/// * More than one attribute `#[ref_unit]` is given.
/// * No attribute `#[unit]` is given.
/// * Wrong number or wrong type of arguments given to attribute `#[ref_unit]`.
/// * Wrong number of arguments given to an attribute `#[unit]`.
/// * No \<scale\> argument given to an attribute `#[unit]` when required.
///
/// # Example
///
/// ```compile_fail
/// use quantities::prelude::*; // This dependency can't be fulfilled here!
/// #[quantity]
/// #[ref_unit(Kilogram, "kg", KILO, "Reference unit of quantity `Mass`")]
/// #[unit(Milligram, "mg", MILLI, 0.000001, "0.001·g")]
/// #[unit(Gram, "g", NONE, 0.001, "0.001·kg")]
/// #[unit(Ounce, "oz", 0.028349523125, "0.0625·lb")]
/// #[unit(Pound, "lb", 0.45359237, "0.45359237·kg")]
/// #[unit(Tonne, "t", MEGA, 1000, "1000·kg")]
/// /// The quantity of matter in a physical body.
/// struct Mass {}
/// ```
///
/// This results in the following code:
///
/// ```compile_fail
/// #[doc = " The quantity of matter in a physical body."]
/// #[derive(Copy, Clone, Debug)]
/// pub struct Mass {
///     amount: AmountT,
///     unit: MassUnit,
/// }
/// impl Quantity for Mass {
///     type UnitType = MassUnit;
///     #[inline(always)]
///     fn new(amount: AmountT, unit: Self::UnitType) -> Self {
///         Self { amount, unit }
///     }
///     #[inline(always)]
///     fn amount(&self) -> AmountT {
///         self.amount
///     }
///     #[inline(always)]
///     fn unit(&self) -> Self::UnitType {
///         self.unit
///     }
/// }
/// #[doc = "Unit of quantity `Mass`."]
/// #[derive(Copy, Clone, Debug, Eq, PartialEq)]
/// pub enum MassUnit {
///     #[doc = "0.001·g"]
///     Milligram,
///     #[doc = "0.001·kg"]
///     Gram,
///     #[doc = "0.0625·lb"]
///     Ounce,
///     #[doc = "0.45359237·kg"]
///     Pound,
///     #[doc = "Reference unit of quantity `Mass`"]
///     Kilogram,
///     #[doc = "1000·kg"]
///     Tonne,
/// }
/// impl MassUnit {
///     const VARIANTS: [MassUnit; 6usize] = [
///         MassUnit::Milligram,
///         MassUnit::Gram,
///         MassUnit::Ounce,
///         MassUnit::Pound,
///         MassUnit::Kilogram,
///         MassUnit::Tonne,
///     ];
/// }
/// impl Unit for MassUnit {
///     type QuantityType = Mass;
///     fn iter<'a>() -> core::slice::Iter<'a, Self> {
///         Self::VARIANTS.iter()
///     }
///     fn name(&self) -> &'static str {
///         match self {
///             MassUnit::Milligram => "Milligram",
///             MassUnit::Gram => "Gram",
///             MassUnit::Ounce => "Ounce",
///             MassUnit::Pound => "Pound",
///             MassUnit::Kilogram => "Kilogram",
///             MassUnit::Tonne => "Tonne",
///         }
///     }
///     fn symbol(&self) -> &'static str {
///         match self {
///             MassUnit::Milligram => "mg",
///             MassUnit::Gram => "g",
///             MassUnit::Ounce => "oz",
///             MassUnit::Pound => "lb",
///             MassUnit::Kilogram => "kg",
///             MassUnit::Tonne => "t",
///         }
///     }
///     fn si_prefix(&self) -> Option<SIPrefix> {
///         match self {
///             MassUnit::Milligram => Some(SIPrefix::MILLI),
///             MassUnit::Gram => Some(SIPrefix::NONE),
///             MassUnit::Kilogram => Some(SIPrefix::KILO),
///             MassUnit::Tonne => Some(SIPrefix::MEGA),
///             _ => None,
///         }
///     }
/// }
/// impl LinearScaledUnit for MassUnit {
///     const REF_UNIT: Self = MassUnit::Kilogram;
///     fn scale(&self) -> AmountT {
///         match self {
///             MassUnit::Milligram => 0.000001 as f64,
///             MassUnit::Gram => 0.001 as f64,
///             MassUnit::Ounce => 0.028349523125 as f64,
///             MassUnit::Pound => 0.45359237 as f64,
///             MassUnit::Kilogram => 1.0 as f64,
///             MassUnit::Tonne => 1000 as f64,
///         }
///     }
/// }
/// impl HasRefUnit for Mass {
///     const REF_UNIT: MassUnit = MassUnit::Kilogram;
/// }
/// impl Eq for Mass {}
/// impl PartialEq<Self> for Mass {
///     #[inline(always)]
///     fn eq(&self, other: &Self) -> bool {
///         <Self as HasRefUnit>::eq(self, other)
///     }
/// }
/// impl PartialOrd for Mass {
///     #[inline(always)]
///     fn partial_cmp(&self, other: &Self) -> Option<Ordering> {
///         <Self as HasRefUnit>::partial_cmp(self, other)
///     }
/// }
/// impl Add<Self> for Mass {
///     type Output = Self;
///     #[inline(always)]
///     fn add(self, rhs: Self) -> Self::Output {
///         <Self as HasRefUnit>::add(self, rhs)
///     }
/// }
/// impl Sub<Self> for Mass {
///     type Output = Self;
///     #[inline(always)]
///     fn sub(self, rhs: Self) -> Self::Output {
///         <Self as HasRefUnit>::sub(self, rhs)
///     }
/// }
/// impl Div<Self> for Mass {
///     type Output = AmountT;
///     #[inline(always)]
///     fn div(self, rhs: Self) -> Self::Output {
///         <Self as HasRefUnit>::div(self, rhs)
///     }
/// }
/// #[doc = "0.001·g"]
/// pub const MILLIGRAM: MassUnit = MassUnit::Milligram;
/// #[doc = "0.001·kg"]
/// pub const GRAM: MassUnit = MassUnit::Gram;
/// #[doc = "0.0625·lb"]
/// pub const OUNCE: MassUnit = MassUnit::Ounce;
/// #[doc = "0.45359237·kg"]
/// pub const POUND: MassUnit = MassUnit::Pound;
/// #[doc = "Reference unit of quantity `Mass`"]
/// pub const KILOGRAM: MassUnit = MassUnit::Kilogram;
/// #[doc = "1000·kg"]
/// pub const TONNE: MassUnit = MassUnit::Tonne;
/// impl Mul<MassUnit> for AmountT {
///     type Output = Mass;
///     #[inline(always)]
///     fn mul(self, rhs: MassUnit) -> Self::Output {
///         Mass::new(self, rhs)
///     }
/// }
/// impl Mul<AmountT> for MassUnit {
///     type Output = Mass;
///     #[inline(always)]
///     fn mul(self, rhs: AmountT) -> Self::Output {
///         Mass::new(rhs, self)
///     }
/// }
/// impl fmt::Display for Mass {
///     fn fmt(&self, f: &mut fmt::Formatter<'_>) -> fmt::Result {
///         <Self as Quantity>::fmt(self, f)
///     }
/// }
/// impl Mul<Mass> for AmountT {
///     type Output = Mass;
///     #[inline(always)]
///     fn mul(self, rhs: Mass) -> Self::Output {
///         Self::Output::new(self * rhs.amount(), rhs.unit())
///     }
/// }
/// impl Mul<AmountT> for Mass {
///     type Output = Self;
///     #[inline(always)]
///     fn mul(self, rhs: AmountT) -> Self::Output {
///         Self::Output::new(self.amount() * rhs, self.unit())
///     }
/// }
/// impl Div<AmountT> for Mass {
///     type Output = Self;
///     #[inline(always)]
///     fn div(self, rhs: AmountT) -> Self::Output {
///         Self::Output::new(self.amount() / rhs, self.unit())
///     }
/// }
/// ```
#[proc_macro_attribute]
#[proc_macro_error]
pub fn quantity(args: TokenStream, item: TokenStream) -> TokenStream {
    let mut item_ast = parse_item(item.into());
    let mut qty_def = analyze(&mut item_ast);
    qty_def.derived_as = parse_args(args.into());
    let code = codegen(&qty_def, &item_ast.attrs);
    code.into()
}
