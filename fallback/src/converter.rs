// ---------------------------------------------------------------------------
// Copyright:   (c) 2022 ff. Michael Amrhein (michael@adrhinum.de)
// License:     This program is part of a larger application. For license
//              details please read the file LICENSE.TXT provided together
//              with the application.
// ---------------------------------------------------------------------------
// $Source$
// $Revision$

use crate::{AmountT, Quantity};

/// Trait for quantity converters
pub trait Converter<Q: Quantity> {
    /// Returns `conv` where `conv` ≣ `qty` and `conv.unit()` is `to_unit`, or
    /// `None` if conversion is not possible.
    fn convert(self, qty: &Q, to_unit: Q::UnitType) -> Option<Q>;
}

/// A table defining the conversion between instances of quantity `Q` having
/// different units.
///
/// Each entry of the table is holding the following elements:
/// * from_unit: Q::UnitType,
/// * to_unit: Q::UnitType,
/// * factor: AmountT,
/// * offset: AmountT
///
/// defining the conversion
/// to_amount = from_amount * factor + offset
#[derive(Debug)]
pub struct ConversionTable<Q: Quantity, const N: usize> {
    /// Table of tuples (from_unit, to_unit, factor, offset), defining the
    /// conversion to_amount = from_amount * factor + offset
    pub mappings: [(Q::UnitType, Q::UnitType, AmountT, AmountT); N],
}

impl<Q: Quantity, const N: usize> Converter<Q> for ConversionTable<Q, N> {
    fn convert(self, qty: &Q, to_unit: Q::UnitType) -> Option<Q> {
        if (*qty).unit() == to_unit {
            return Some(*qty);
        }
        self.mappings.iter().find_map(|(from, to, factor, offset)| {
            (*from == (*qty).unit() && *to == to_unit)
                .then(|| Q::new(qty.amount() * factor + offset, to_unit))
        })
    }
}
