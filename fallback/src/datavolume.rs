// ---------------------------------------------------------------------------
// Copyright:   (c) 2022 ff. Michael Amrhein (michael@adrhinum.de)
// License:     This program is part of a larger application. For license
//              details please read the file LICENSE.TXT provided together
//              with the application.
// ---------------------------------------------------------------------------
// $Source$
// $Revision$

//! Definition of basic quantity `DataVolume`.

use crate::prelude::*;

#[quantity]
#[ref_unit(Byte, "B", NONE, "Reference unit of quantity `DataVolume`")]
#[unit(Bit, "b", 0.125, "0.125·B")]
#[unit(Kilobit, "kb", 125, "1000·b")]
#[unit(Kibibit, "Kib", 128, "1024·b")]
#[unit(Kilobyte, "kB", KILO, 1000, "1000·B")]
#[unit(Kibibyte, "KiB", 1024, "1024·B")]
#[unit(Megabit, "Mb", 125000, "1000000·b")]
#[unit(Mebibit, "Mib", 131072, "1048576·b")]
#[unit(Megabyte, "MB", MEGA, 1000000, "1000000·B")]
#[unit(Mebibyte, "MiB", 1048576, "1048576·B")]
#[unit(Gigabit, "Gb", 125000000, "1000000000·b")]
#[unit(Gibibit, "Gib", 134217728, "1073741824·b")]
#[unit(Gigabyte, "GB", GIGA, 1000000000, "1000000000·B")]
#[unit(Gibibyte, "GiB", 1073741824, "1073741824·B")]
#[unit(Terabit, "Tb", 125000000000., "1000000000000·b")]
#[unit(Tebibit, "Tib", 137438953472., "1099511627776·b")]
#[unit(Terabyte, "TB", TERA, 1000000000000., "1000000000000·B")]
#[unit(Tebibyte, "TiB", 1099511627776., "1099511627776·B")]
/// DataVolume according to IEEE 1541-2002
///
/// Reference unit: Byte ('B')
///
/// Predefined units:
///
/// | Symbol | Name                  | Definition        | Equivalent in 'B'   |
/// |--------|-----------------------|-------------------|---------------------|
/// | b      | Bit                   | 0.125·B           | 0.125               |
/// | kb     | Kilobit               | 1000·b            | 125                 |
/// | Kib    | Kibibit               | 1024·b            | 128                 |
/// | kB     | Kilobyte              | 1000·B            | 1000                |
/// | KiB    | Kibibyte              | 1024·B            | 1024                |
/// | Mb     | Megabit               | 1000000·b         | 125000              |
/// | Mib    | Mebibit               | 1048576·b         | 131072              |
/// | MB     | Megabyte              | 1000000·B         | 1000000             |
/// | MiB    | Mebibyte              | 1048576·B         | 1048576             |
/// | Gb     | Gigabit               | 1000000000·b      | 125000000           |
/// | Gib    | Gibibit               | 1073741824·b      | 134217728           |
/// | GB     | Gigabyte              | 1000000000·B      | 1000000000          |
/// | GiB    | Gibibyte              | 1073741824·B      | 1073741824          |
/// | Tb     | Terabit               | 1000000000000·b   | 125000000000        |
/// | Tib    | Tebibit               | 1099511627776·b   | 137438953472        |
/// | TB     | Terabyte              | 1000000000000·B   | 1000000000000       |
/// | TiB    | Tebibyte              | 1099511627776·B   | 1099511627776       |
pub struct DataVolume {}

#[cfg(test)]
mod tests {
    use super::*;

    #[test]
    fn test_datavolume() {
        let amnt: AmountT = Amnt!(375);
        let d = amnt * GIBIBYTE;
        assert_eq!(d.amount, amnt);
        assert_eq!(d.unit, GIBIBYTE);
        #[cfg(feature = "std")]
        assert_eq!(d.to_string(), "375 GiB");
        let d = d.convert(TERABYTE);
        assert_eq!(d.unit, TERABYTE);
        assert_eq!(d.amount, Amnt!(0.402653184));
        let d = d.convert(KIBIBYTE);
        assert_eq!(d.unit, KIBIBYTE);
        assert_eq!(d.amount, Amnt!(393216000));
    }
}
