// ---------------------------------------------------------------------------
// Copyright:   (c) 2022 ff. Michael Amrhein (michael@adrhinum.de)
// License:     This program is part of a larger application. For license
//              details please read the file LICENSE.TXT provided together
//              with the application.
// ---------------------------------------------------------------------------
// $Source$
// $Revision$

//! Definition of derived quantity `Frequency`.

use crate::{duration::Duration, prelude::*};

#[quantity(AmountT / Duration)]
#[ref_unit(Hertz, "Hz", NONE, "Reference unit of quantity `Frequency`")]
#[unit(Kilohertz, "kHz", KILO, 1000, "1000·Hz")]
#[unit(Megahertz, "MHz", MEGA, 1000000, "1000000·Hz")]
#[unit(Gigahertz, "GHz", GIGA, 1000000000, "1000000000·Hz")]
/// Number of occurrences of a repeating event per unit of time
///
/// Definition: 1/Duration
///
/// Reference unit: Hertz ('Hz' = '1/s')
///
/// Predefined units:
///
/// | Symbol | Name                  | Definition        | Equivalent in 'Hz'  |
/// |--------|-----------------------|-------------------|---------------------|
/// | kHz    | Kilohertz             | 1000·Hz           | 1000                |
/// | MHz    | Megahertz             | 1000000·Hz        | 1000000             |
/// | GHz    | Gigahertz             | 1000000000·Hz     | 1000000000          |
pub struct Frequency {}

#[cfg(test)]
mod tests {
    use super::*;
    use crate::{assert_almost_eq, duration::MILLISECOND};

    #[test]
    fn test_amount_div_duration() {
        let a: AmountT = Amnt!(9030.);
        let at: AmountT = Amnt!(2.5);
        let t = at * MILLISECOND;
        let f = a / t;
        assert_almost_eq!(f.amount(), a / at);
        assert_eq!(f.unit(), KILOHERTZ);
    }
}
