// ---------------------------------------------------------------------------
// Copyright:   (c) 2022 ff. Michael Amrhein (michael@adrhinum.de)
// License:     This program is part of a larger application. For license
//              details please read the file LICENSE.TXT provided together
//              with the application.
// ---------------------------------------------------------------------------
// $Source$
// $Revision$

//! Definition of derived quantity `Acceleration`.

use crate::{duration::Duration, prelude::*, speed::Speed};

#[quantity(Speed / Duration)]
#[ref_unit(
    Meter_per_Second_squared,
    "m/s²",
    NONE,
    "Reference unit of quantity `Acceleration`"
)]
#[unit(Yards_per_Second_squared, "yd/s²", 0.9144, "yd/s²")]
/// Rate of change of an objects speed with respect to time.
///
/// Definition: Speed/Duration = Length/Duration²
///
/// Reference unit: Meter per Second squared ('m/s²')
///
/// Predefined units:
///
/// | Symbol | Name                     | Definition    | Equivalent in 'm/s²' |
/// |--------|--------------------------|---------------|----------------------|
/// | yd/s²  | Yards per Second squared | yd/s²         | 0.9144               |
pub struct Acceleration {}

#[cfg(test)]
mod tests {
    use super::*;
    use crate::{
        assert_almost_eq, duration::MILLISECOND, speed::METER_PER_SECOND,
    };

    #[test]
    fn test_speed_div_duration() {
        let av: AmountT = Amnt!(2.94);
        let v = av * METER_PER_SECOND;
        let at = Amnt!(7.);
        let t = at * MILLISECOND;
        let a = v / t;
        assert_almost_eq!(a.amount(), av / at * Amnt!(1000.));
        assert_eq!(a.unit(), METER_PER_SECOND_SQUARED);
    }
}
