// ---------------------------------------------------------------------------
// Copyright:   (c) 2022 ff. Michael Amrhein (michael@adrhinum.de)
// License:     This program is part of a larger application. For license
//              details please read the file LICENSE.TXT provided together
//              with the application.
// ---------------------------------------------------------------------------
// $Source$
// $Revision$

//! Definition of basic quantity `Mass`.

use crate::prelude::*;

#[quantity]
#[ref_unit(Kilogram, "kg", KILO, "Reference unit of quantity `Mass`")]
#[unit(Milligram, "mg", MILLI, 0.000001, "0.001·g")]
#[unit(Carat, "ct", 0.0002, "0.2·g")]
#[unit(Gram, "g", NONE, 0.001, "0.001·kg")]
#[unit(Ounce, "oz", 0.028349523125, "0.0625·lb")]
#[unit(Pound, "lb", 0.45359237, "0.45359237·kg")]
#[unit(Stone, "st", 6.35029318, "14·lb")]
#[unit(Tonne, "t", MEGA, 1000, "1000·kg")]
/// The quantity of matter in a physical body.
///
/// Also used as measure of a physical body's resistance to acceleration.
///
/// Reference unit: Kilogram ('kg')
///
/// Predefined units:
///
/// | Symbol | Name                   | Definition        | Equivalent in 'kg' |
/// |--------|------------------------|-------------------|--------------------|
/// | mg     | Milligram              | 0.001·g           | 0.000001           |
/// | ct     | Carat                  | 0.2·g             | 0.0002             |
/// | g      | Gram                   | 0.001·kg          | 0.001              |
/// | oz     | Ounce                  | 0.0625·lb         | 0.028349523125     |
/// | lb     | Pound                  | 0.45359237·kg     | 0.45359237         |
/// | st     | Stone                  | 14·lb             | 6.35029318         |
/// | t      | Tonne                  | 1000·kg           | 1000               |
pub struct Mass {}

#[cfg(test)]
mod tests {
    use super::*;

    #[test]
    fn test_mass() {
        assert_eq!(<Mass as HasRefUnit>::REF_UNIT, MassUnit::REF_UNIT);
        assert!(KILOGRAM.is_ref_unit());
        let amnt: AmountT = Amnt!(29.35);
        let m = amnt * KILOGRAM;
        assert_eq!(m.amount, amnt);
        assert_eq!(m.unit, KILOGRAM);
        #[cfg(feature = "std")]
        assert_eq!(m.to_string(), "29.35 kg");
    }
}
