// ---------------------------------------------------------------------------
// Copyright:   (c) 2022 ff. Michael Amrhein (michael@adrhinum.de)
// License:     This program is part of a larger application. For license
//              details please read the file LICENSE.TXT provided together
//              with the application.
// ---------------------------------------------------------------------------
// $Source$
// $Revision$

//! Definition of derived quantity `Energy`.

use crate::{force::Force, length::Length, prelude::*};

#[quantity(Force * Length)]
#[ref_unit(Joule, "J", NONE, "Reference unit of quantity `Energy`")]
#[unit(Newton_Meter, "Nm", NONE, 1, "N·m")]
#[unit(Watt_Second, "Ws", NONE, 1, "W·s")]
#[unit(Kilowatt_Hour, "kWh", 3600000, "kW·h")]
/// Property that must be transferred to an object in order to perform work on
/// or to heat it.
///
/// Definition: Force·Length
///
/// Reference unit: Joule ('J' = 'N·m' = 'kg·m²/s²')
///
/// Predefined units:
///
/// | Symbol | Name                    | Definition        | Equivalent in 'J' |
/// |--------|-------------------------|-------------------|-------------------|
/// | Nm     | Newton Meter            | N·m               | 1                 |
/// | Ws     | Watt Second             | W·s               | 1                 |
/// | kWh    | Kilowatt Hour           | kW·h              | 3600000           |
pub struct Energy {}

#[cfg(test)]
mod tests {
    use super::*;
    use crate::{assert_almost_eq, force::NEWTON, length::KILOMETER};

    #[test]
    fn test_force_mul_length() {
        let af = Amnt!(785.3);
        let f = af * NEWTON;
        let al: AmountT = Amnt!(38.4);
        let l = al * KILOMETER;
        let e = f * l;
        assert_almost_eq!(e.amount(), af * al * Amnt!(1000.));
        assert_eq!(e.unit(), JOULE);
    }
}
