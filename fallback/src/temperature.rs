// ---------------------------------------------------------------------------
// Copyright:   (c) 2022 ff. Michael Amrhein (michael@adrhinum.de)
// License:     This program is part of a larger application. For license
//              details please read the file LICENSE.TXT provided together
//              with the application.
// ---------------------------------------------------------------------------
// $Source$
// $Revision$

//! Definition of basic quantity `Temperature`.

use crate::{converter::ConversionTable, prelude::*};

#[rustfmt::skip]
#[quantity]
#[unit(Kelvin, "K", "K")]
#[unit(Degree_Celsius, "°C", "°C")]
#[unit(Degree_Fahrenheit, "°F", "°F")]
/// Measure of thermal energy
///
/// Predefined units:
///
/// | Symbol | Name              | Equivalents                   |
/// |--------|-------------------|-------------------------------|
/// | K      | Kelvin            | 0 K = -273,25 °C = -459.67 °F |
/// | °C     | Degree Celsius    | 0 °C = 32 °F = 273,25 K       |
/// | °F     | Degree Fahrenheit | 0 °F ≅ -17.778 °C ≅ 255.372 K |
///
/// Temperature units are converted using the following formulas:
///
/// | from \ to  | Kelvin                          | Celsius                      | Fahrenheit                    |
/// |------------|---------------------------------|------------------------------|-------------------------------|
/// | Kelvin     | -                               | \[°C\] = \[K\] - 273.15      | \[°F\] = \[K\] * 9/5 - 459.67 |
/// | Celsius    | \[K\] = \[°C\] + 273.15         | -                            | \[°F\] = \[°C\] * 9/5 + 32    |
/// | Fahrenheit | \[K\] = (\[°F\] + 459.67) * 5/9 | \[°C\] = (\[°F\] - 32) * 5/9 | -                             |
pub struct Temperature {}

/// Temperature conversion table
pub const TEMPERATURE_CONVERTER: ConversionTable<Temperature, 6> =
    ConversionTable {
        mappings: [
            (KELVIN, DEGREE_CELSIUS, Amnt!(1), Amnt!(-273.15)),
            (DEGREE_CELSIUS, KELVIN, Amnt!(1), Amnt!(273.15)),
            (KELVIN, DEGREE_FAHRENHEIT, Amnt!(1.8), Amnt!(-459.67)),
            (
                DEGREE_FAHRENHEIT,
                KELVIN,
                Amnt!(0.555555555555555556),
                Amnt!(255.372222222222222222),
            ),
            (DEGREE_CELSIUS, DEGREE_FAHRENHEIT, Amnt!(1.8), Amnt!(32)),
            (
                DEGREE_FAHRENHEIT,
                DEGREE_CELSIUS,
                Amnt!(0.555555555555555556),
                Amnt!(-17.777777777777777778),
            ),
        ],
    };

#[cfg(test)]
mod tests {
    use super::*;
    use crate::{assert_almost_eq, converter::Converter};

    #[test]
    fn test_temperature() {
        let amnt: AmountT = Amnt!(21.5);
        let m = amnt * KELVIN;
        assert_eq!(m.amount, amnt);
        assert_eq!(m.unit, KELVIN);
        #[cfg(feature = "std")]
        assert_eq!(m.to_string(), "21.5 K");
    }

    #[test]
    fn test_temp_converter() {
        let tk: Temperature = Amnt!(17.5) * KELVIN;
        assert_eq!(TEMPERATURE_CONVERTER.convert(&tk, KELVIN), Some(tk));
        let tc = TEMPERATURE_CONVERTER.convert(&tk, DEGREE_CELSIUS).unwrap();
        assert_eq!(tc.unit(), DEGREE_CELSIUS);
        assert_almost_eq!(tc.amount(), Amnt!(-255.65));
        let tk2 = TEMPERATURE_CONVERTER.convert(&tc, KELVIN).unwrap();
        assert_almost_eq!(tk2.amount(), tk.amount());
        let tf = TEMPERATURE_CONVERTER
            .convert(&tk, DEGREE_FAHRENHEIT)
            .unwrap();
        assert_eq!(tf.unit(), DEGREE_FAHRENHEIT);
        assert_almost_eq!(tf.amount(), Amnt!(-428.17));
        let tk2 = TEMPERATURE_CONVERTER.convert(&tf, KELVIN).unwrap();
        assert_almost_eq!(tk2.amount(), tk.amount());
        let tc: Temperature = Amnt!(34.7) * DEGREE_CELSIUS;
        let tf = TEMPERATURE_CONVERTER
            .convert(&tc, DEGREE_FAHRENHEIT)
            .unwrap();
        assert_almost_eq!(tf.amount(), Amnt!(94.46));
        let tc2 = TEMPERATURE_CONVERTER.convert(&tf, DEGREE_CELSIUS).unwrap();
        assert_almost_eq!(tc2.amount, tc.amount);
    }
}
