// ---------------------------------------------------------------------------
// Copyright:   (c) 2022 ff. Michael Amrhein (michael@adrhinum.de)
// License:     This program is part of a larger application. For license
//              details please read the file LICENSE.TXT provided together
//              with the application.
// ---------------------------------------------------------------------------
// $Source$
// $Revision$

//! Definition of basic quantity `Duration`.

use crate::prelude::*;

#[quantity]
#[ref_unit(Second, "s", NONE, "Reference unit of quantity `Duration`")]
#[unit(Nanosecond, "ns", NANO, 0.000000001, "0.000000001·s")]
#[unit(Microsecond, "µs", MICRO, 0.000001, "0.000001·s")]
#[unit(Millisecond, "ms", MILLI, 0.001, "0.001·s")]
#[unit(Minute, "min", 60, "60·s")]
#[unit(Hour, "h", 3600, "60·min")]
#[unit(Day, "d", 86400, "24·h")]
/// Duration: 'what a clock reads'
///
/// Reference unit: Second ('s')
///
/// Predefined units:
///
/// | Symbol | Name                  | Definition        | Equivalent in 's'   |
/// |--------|-----------------------|-------------------|---------------------|
/// | ns     | Nanosecond            | 0.000000001·s     | 0.000000001         |
/// | µs     | Microsecond           | 0.000001·s        | 0.000001            |
/// | ms     | Millisecond           | 0.001·s           | 0.001               |
/// | min    | Minute                | 60·s              | 60                  |
/// | h      | Hour                  | 60·min            | 3600                |
/// | d      | Day                   | 24·h              | 86400               |
pub struct Duration {}

#[cfg(test)]
mod tests {
    use super::*;

    #[test]
    fn test_duration() {
        let amnt: AmountT = Amnt!(29.35);
        let d = amnt * MILLISECOND;
        assert_eq!(d.amount, amnt);
        assert_eq!(d.unit, MILLISECOND);
        #[cfg(feature = "std")]
        assert_eq!(d.to_string(), "29.35 ms");
    }
}
