// ---------------------------------------------------------------------------
// Copyright:   (c) 2022 ff. Michael Amrhein (michael@adrhinum.de)
// License:     This program is part of a larger application. For license
//              details please read the file LICENSE.TXT provided together
//              with the application.
// ---------------------------------------------------------------------------
// $Source$
// $Revision$

pub use fpdec::{Dec, Decimal};

/// Type used for the numerical part of a Quantity.
///
/// When feature `fpdec` is off (= default), AmountT is defined as `f64` on a
/// 64-bit system or as `f32` on a 32-bit system.
///
/// When feature fpdec is activated, AmountT is defined as `Decimal`
/// (imported from crate `fpdec`).
///
/// The macro `Amnt!` can be used to convert float literals correctly to
/// `AmountT` depending on the configuration.
pub type AmountT = Decimal;

/// AmountT constant equal 0
pub const AMNT_ZERO: AmountT = Decimal::ZERO;

/// AmountT constant equal 1
pub const AMNT_ONE: AmountT = Decimal::ONE;

#[allow(non_snake_case)]
#[macro_export]
/// Converts a numeric literal to an `AmountT`.
macro_rules! Amnt {
    ($lit:literal) => {
        Dec!($lit)
    };
}

#[macro_export]
macro_rules! assert_almost_eq {
    ($x:expr, $y:expr) => {
        let t = if ($x).abs() >= ($y).abs() {
            ($x).abs() * Decimal::new_raw(1, 15)
        } else {
            ($y).abs() * Decimal::new_raw(1, 15)
        };
        assert!(($x - $y).abs() < t, "{} ≉ {}", ($x), ($y));
    };
}
