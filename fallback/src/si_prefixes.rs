// ---------------------------------------------------------------------------
// Copyright:   (c) 2023 ff. Michael Amrhein (michael@adrhinum.de)
// License:     This program is part of a larger application. For license
//              details please read the file LICENSE.TXT provided together
//              with the application.
// ---------------------------------------------------------------------------
// $Source$
// $Revision$

use ::qty_macros::EnumIter;

/// Enum of unit prefixes defined for the System of Units (SI).
///
/// These prefixes can be added to unit names to name multiples and submultiples
/// of the original unit.
#[derive(Copy, Clone, Debug, Eq, PartialEq, EnumIter)]
pub enum SIPrefix {
    /// 10⁻³⁰
    QUECTO = -30,
    /// 10⁻²⁷
    RONTO = -27,
    /// 10⁻²⁴
    YOCTO = -24,
    /// 10⁻²¹
    ZEPTO = -21,
    /// 10⁻¹⁸
    ATTO = -18,
    /// 10⁻¹⁵
    FEMTO = -15,
    /// 10⁻¹²
    PICO = -12,
    /// 10⁻⁹
    NANO = -9,
    /// 10⁻⁶
    MICRO = -6,
    /// 10⁻³
    MILLI = -3,
    /// 10⁻²
    CENTI = -2,
    /// 10⁻¹
    DECI = -1,
    /// 10⁰
    NONE = 0,
    /// 10¹
    DECA = 1,
    /// 10²
    HECTO = 2,
    /// 10³
    KILO = 3,
    /// 10⁶
    MEGA = 6,
    /// 10⁹
    GIGA = 9,
    /// 10¹²
    TERA = 12,
    /// 10¹⁵
    PETA = 15,
    /// 10¹⁸
    EXA = 18,
    /// 10²¹
    ZETTA = 21,
    /// 10²⁴
    YOTTA = 24,
    /// 10²⁷
    RONNA = 27,
    /// 10³⁰
    QUETTA = 30,
}

impl SIPrefix {
    /// Returns the name of `self`.
    #[must_use]
    pub const fn name(&self) -> &'static str {
        match self {
            Self::QUECTO => "Quecto",
            Self::RONTO => "Ronto",
            Self::YOCTO => "Yocto",
            Self::ZEPTO => "Zepto",
            Self::ATTO => "Atto",
            Self::FEMTO => "Femto",
            Self::PICO => "Pico",
            Self::NANO => "Nano",
            Self::MICRO => "Micro",
            Self::MILLI => "Milli",
            Self::CENTI => "Centi",
            Self::DECI => "Deci",
            Self::NONE => "",
            Self::DECA => "Deca",
            Self::HECTO => "Hecto",
            Self::KILO => "Kilo",
            Self::MEGA => "Mega",
            Self::GIGA => "Giga",
            Self::TERA => "Tera",
            Self::PETA => "Peta",
            Self::EXA => "Exa",
            Self::ZETTA => "Zetta",
            Self::YOTTA => "Yotta",
            Self::RONNA => "Ronna",
            Self::QUETTA => "Quetta",
        }
    }

    /// Returns the abbreviation used to represent `self`.
    #[must_use]
    pub const fn abbr(&self) -> &'static str {
        match self {
            Self::QUECTO => "q",
            Self::RONTO => "r",
            Self::YOCTO => "y",
            Self::ZEPTO => "z",
            Self::ATTO => "a",
            Self::FEMTO => "f",
            Self::PICO => "p",
            Self::NANO => "n",
            Self::MICRO => "µ",
            Self::MILLI => "m",
            Self::CENTI => "c",
            Self::DECI => "d",
            Self::NONE => "",
            Self::DECA => "da",
            Self::HECTO => "h",
            Self::KILO => "k",
            Self::MEGA => "M",
            Self::GIGA => "G",
            Self::TERA => "T",
            Self::PETA => "P",
            Self::EXA => "E",
            Self::ZETTA => "Z",
            Self::YOTTA => "Y",
            Self::RONNA => "R",
            Self::QUETTA => "Q",
        }
    }

    /// Returns the exponent of base 10 represented by `self`.
    #[inline(always)]
    #[must_use]
    pub const fn exp(&self) -> i8 {
        *self as i8
    }

    /// Returns the SI prefix with the abbreviation `abbr`, or `None` if there
    /// is no such SI prefix.
    #[must_use]
    pub fn from_abbr(abbr: &str) -> Option<Self> {
        match abbr {
            "q" => Some(Self::QUECTO),
            "r" => Some(Self::RONTO),
            "y" => Some(Self::YOCTO),
            "z" => Some(Self::ZEPTO),
            "a" => Some(Self::ATTO),
            "f" => Some(Self::FEMTO),
            "p" => Some(Self::PICO),
            "n" => Some(Self::NANO),
            "µ" => Some(Self::MICRO),
            "m" => Some(Self::MILLI),
            "c" => Some(Self::CENTI),
            "d" => Some(Self::DECI),
            "" => Some(Self::NONE),
            "da" => Some(Self::DECA),
            "h" => Some(Self::HECTO),
            "k" => Some(Self::KILO),
            "M" => Some(Self::MEGA),
            "G" => Some(Self::GIGA),
            "T" => Some(Self::TERA),
            "P" => Some(Self::PETA),
            "E" => Some(Self::EXA),
            "Z" => Some(Self::ZETTA),
            "Y" => Some(Self::YOTTA),
            "R" => Some(Self::RONNA),
            "Q" => Some(Self::QUETTA),
            _ => None,
        }
    }

    /// Returns the SI prefix with the exponent `exp`, or `None` if there is no
    /// such SI prefix.
    #[must_use]
    pub const fn from_exp(exp: i8) -> Option<Self> {
        match exp {
            -30 => Some(Self::QUECTO),
            -27 => Some(Self::RONTO),
            -24 => Some(Self::YOCTO),
            -21 => Some(Self::ZEPTO),
            -18 => Some(Self::ATTO),
            -15 => Some(Self::FEMTO),
            -12 => Some(Self::PICO),
            -9 => Some(Self::NANO),
            -6 => Some(Self::MICRO),
            -3 => Some(Self::MILLI),
            -2 => Some(Self::CENTI),
            -1 => Some(Self::DECI),
            0 => Some(Self::NONE),
            1 => Some(Self::DECA),
            2 => Some(Self::HECTO),
            3 => Some(Self::KILO),
            6 => Some(Self::MEGA),
            9 => Some(Self::GIGA),
            12 => Some(Self::TERA),
            15 => Some(Self::PETA),
            18 => Some(Self::EXA),
            21 => Some(Self::ZETTA),
            24 => Some(Self::YOTTA),
            27 => Some(Self::RONNA),
            30 => Some(Self::QUETTA),
            _ => None,
        }
    }
}

#[cfg(test)]
mod tests {
    use super::*;

    #[test]
    fn test_iter() {
        let mut it = SIPrefix::iter();
        assert_eq!(it.next(), Some(&SIPrefix::QUECTO));
        assert_eq!(it.next(), Some(&SIPrefix::RONTO));
        assert_eq!(it.next(), Some(&SIPrefix::YOCTO));
        assert_eq!(it.next(), Some(&SIPrefix::ZEPTO));
        assert_eq!(it.next(), Some(&SIPrefix::ATTO));
        assert_eq!(it.next(), Some(&SIPrefix::FEMTO));
        assert_eq!(it.next(), Some(&SIPrefix::PICO));
        assert_eq!(it.next(), Some(&SIPrefix::NANO));
        assert_eq!(it.next(), Some(&SIPrefix::MICRO));
        assert_eq!(it.next(), Some(&SIPrefix::MILLI));
        assert_eq!(it.next(), Some(&SIPrefix::CENTI));
        assert_eq!(it.next(), Some(&SIPrefix::DECI));
        assert_eq!(it.next(), Some(&SIPrefix::NONE));
        assert_eq!(it.next(), Some(&SIPrefix::DECA));
        assert_eq!(it.next(), Some(&SIPrefix::HECTO));
        assert_eq!(it.next(), Some(&SIPrefix::KILO));
        assert_eq!(it.next(), Some(&SIPrefix::MEGA));
        assert_eq!(it.next(), Some(&SIPrefix::GIGA));
        assert_eq!(it.next(), Some(&SIPrefix::TERA));
        assert_eq!(it.next(), Some(&SIPrefix::PETA));
        assert_eq!(it.next(), Some(&SIPrefix::EXA));
        assert_eq!(it.next(), Some(&SIPrefix::ZETTA));
        assert_eq!(it.next(), Some(&SIPrefix::YOTTA));
        assert_eq!(it.next(), Some(&SIPrefix::RONNA));
        assert_eq!(it.next(), Some(&SIPrefix::QUETTA));
        assert_eq!(it.next(), None);
    }

    #[test]
    fn test_si_prefix_attrs() {
        let m = SIPrefix::MILLI;
        assert_eq!(m.name(), "Milli");
        assert_eq!(m.abbr(), "m");
        assert_eq!(m.exp(), -3);
    }

    #[test]
    fn test_from_abbr() {
        assert_eq!(SIPrefix::from_abbr("M").unwrap(), SIPrefix::MEGA);
        assert_eq!(SIPrefix::from_abbr("µ").unwrap(), SIPrefix::MICRO);
        assert_eq!(SIPrefix::from_abbr("Z").unwrap(), SIPrefix::ZETTA);
        assert!(SIPrefix::from_abbr("x").is_none());
    }

    #[test]
    fn test_from_exp() {
        assert_eq!(SIPrefix::from_exp(-18).unwrap(), SIPrefix::ATTO);
        assert_eq!(SIPrefix::from_exp(0).unwrap(), SIPrefix::NONE);
        assert_eq!(SIPrefix::from_exp(9).unwrap(), SIPrefix::GIGA);
        assert!(SIPrefix::from_exp(7).is_none());
    }
}
