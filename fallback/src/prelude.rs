// ---------------------------------------------------------------------------
// Copyright:   (c) 2021 ff. Michael Amrhein (michael@adrhinum.de)
// License:     This program is part of a larger application. For license
//              details please read the file LICENSE.TXT provided together
//              with the application.
// ---------------------------------------------------------------------------
// $Source$
// $Revision$

//! This module reexports all macros and types needed to define a quantity.

#[doc(hidden)]
pub use alloc::{borrow::ToOwned, string::String};
#[doc(hidden)]
pub use core::cmp::Ordering;
#[doc(hidden)]
pub use core::fmt;
#[doc(hidden)]
pub use core::ops::{Add, Div, Mul, Sub};

pub use qty_macros::quantity;

pub use crate::{
    Amnt, AmountT, HasRefUnit, LinearScaledUnit, Quantity, Rate, SIPrefix,
    Unit, ONE,
};
#[cfg(feature = "fpdec")]
pub use crate::{Dec, Decimal};
