// ---------------------------------------------------------------------------
// Copyright:   (c) 2022 ff. Michael Amrhein (michael@adrhinum.de)
// License:     This program is part of a larger application. For license
//              details please read the file LICENSE.TXT provided together
//              with the application.
// ---------------------------------------------------------------------------
// $Source$
// $Revision$

//! Definition of basic quantity `Length`.

use crate::prelude::*;

#[quantity]
#[ref_unit(Meter, "m", NONE, "Reference unit of quantity `Length`")]
#[unit(Nanometer, "nm", NANO, 0.000000001, "0.000000001·m")]
#[unit(Micrometer, "µm", MICRO, 0.000001, "0.000001·m")]
#[unit(Millimeter, "mm", MILLI, 0.001, "0.001·m")]
#[unit(Centimeter, "cm", CENTI, 0.01, "0.01·m")]
#[unit(Inch, "in", 0.0254, "2.54·cm")]
#[unit(Decimeter, "dm", DECI, 0.1, "0.1·m")]
#[unit(Foot, "ft", 0.3048, "12·in")]
#[unit(Yard, "yd", 0.9144, "3·ft")]
#[unit(Chain, "ch", 20.1168, "22·yd")]
#[unit(Furlong, "fur", 201.168, "10·ch")]
#[unit(Kilometer, "km", KILO, 1000, "1000·m")]
#[unit(Mile, "mi", 1609.344, "8·fur")]
/// The quantity of distance between two points in spacetime.
///
/// Reference unit: Meter ('m')
///
/// Predefined units:
///
/// | Symbol | Name                    | Definition        | Equivalent in 'm' |
/// |--------|-------------------------|-------------------|-------------------|
/// | nm     | Nanometer               | 0.000000001·m     | 0.000000001       |
/// | µm     | Micrometer              | 0.000001·m        | 0.000001          |
/// | mm     | Millimeter              | 0.001·m           | 0.001             |
/// | cm     | Centimeter              | 0.01·m            | 0.01              |
/// | in     | Inch                    | 2.54·cm           | 0.0254            |
/// | dm     | Decimeter               | 0.1·m             | 0.1               |
/// | ft     | Foot                    | 12·in             | 0.3048            |
/// | yd     | Yard                    | 3·ft              | 0.9144            |
/// | ch     | Chain                   | 22·yd             | 20.1168           |
/// | fur    | Furlong                 | 10·ch             | 201.168           |
/// | km     | Kilometer               | 1000·m            | 1000              |
/// | mi     | Mile                    | 8·fur             | 1609.344          |
pub struct Length {}

#[cfg(test)]
mod tests {
    use super::*;

    #[test]
    fn test_length() {
        assert_eq!(<Length as HasRefUnit>::REF_UNIT, LengthUnit::REF_UNIT);
        assert!(METER.is_ref_unit());
        let amnt: AmountT = Amnt!(29.35);
        let l = amnt * CENTIMETER;
        assert_eq!(l.amount, amnt);
        assert_eq!(l.unit, CENTIMETER);
        #[cfg(feature = "std")]
        assert_eq!(l.to_string(), "29.35 cm");
    }
}
