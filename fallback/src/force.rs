// ---------------------------------------------------------------------------
// Copyright:   (c) 2022 ff. Michael Amrhein (michael@adrhinum.de)
// License:     This program is part of a larger application. For license
//              details please read the file LICENSE.TXT provided together
//              with the application.
// ---------------------------------------------------------------------------
// $Source$
// $Revision$

//! Definition of derived quantity `Force`.

use crate::{acceleration::Acceleration, mass::Mass, prelude::*};

#[quantity(Mass * Acceleration)]
#[ref_unit(Newton, "N", NONE, "Reference unit of quantity `Force`")]
#[unit(Joule_per_Meter, "J/m", NONE, 1, "J/m")]
/// Influence that can accelerate an object with mass.
///
/// Definition: Mass·Acceleration = Mass·Length/Duration²
///
/// Reference unit: Newton ('N' = 'kg·m/s²')
///
/// Predefined units:
///
/// | Symbol | Name                    | Definition      | Equivalent in 'N'   |
/// |--------|-------------------------|-----------------|---------------------|
/// | J/m    | Joule per Meter         | J/m             | 1                   |
pub struct Force {}

#[cfg(test)]
mod tests {
    use super::*;
    use crate::{
        acceleration::METER_PER_SECOND_SQUARED, assert_almost_eq, mass::GRAM,
    };

    #[test]
    fn test_mass_mul_acceleration() {
        let am = Amnt!(75.8);
        let m = am * GRAM;
        let aa: AmountT = Amnt!(9.4);
        let a = aa * METER_PER_SECOND_SQUARED;
        let f = m * a;
        assert_almost_eq!(f.amount(), aa * am / Amnt!(1000.));
        assert_eq!(f.unit(), NEWTON);
    }
}
