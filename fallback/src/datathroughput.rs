// ---------------------------------------------------------------------------
// Copyright:   (c) 2022 ff. Michael Amrhein (michael@adrhinum.de)
// License:     This program is part of a larger application. For license
//              details please read the file LICENSE.TXT provided together
//              with the application.
// ---------------------------------------------------------------------------
// $Source$
// $Revision$

//! Definition of derived quantity `DataThroughput`.

use crate::{datavolume::DataVolume, duration::Duration, prelude::*};

#[quantity(DataVolume / Duration)]
#[ref_unit(
    Byte_per_Second,
    "B/s",
    NONE,
    "Reference unit of quantity `DataThroughput`"
)]
#[unit(Bit_per_Second, "b/s", 0.125, "b/s")]
#[unit(Kilobit_per_Second, "kb/s", 125, "1000·b/s")]
#[unit(Kibibit_per_Second, "Kib/s", 128, "1024·b/s")]
#[unit(Kilobyte_per_Second, "kB/s", KILO, 1000, "1000·B/s")]
#[unit(Kibibyte_per_Second, "KiB/s", 1024, "1024·B/s")]
#[unit(Megabit_per_Second, "Mb/s", 125000, "1000000·b/s")]
#[unit(Mebibit_per_Second, "Mib/s", 131072, "1048576·b/s")]
#[unit(Megabyte_per_Second, "MB/s", MEGA, 1000000, "1000000·B/s")]
#[unit(Mebibyte_per_Second, "MiB/s", 1048576, "1048576·B/s")]
#[unit(Gigabit_per_Second, "Gb/s", 125000000, "1000000000·b/s")]
#[unit(Gibibit_per_Second, "Gib/s", 134217728, "1073741824·b/s")]
#[unit(Gigabyte_per_Second, "GB/s", GIGA, 1000000000, "1000000000·B/s")]
#[unit(Gibibyte_per_Second, "GiB/s", 1073741824, "1073741824·B/s")]
#[unit(Terabit_per_Second, "Tb/s", 125000000000., "1000000000000·b/s")]
#[unit(Tebibit_per_Second, "Tib/s", 137438953472., "1099511627776·b/s")]
#[unit(Terabyte_per_Second, "TB/s", TERA, 1000000000000., "1000000000000·B/s")]
#[unit(Tebibyte_per_Second, "TiB/s", 1099511627776., "1099511627776·B/s")]
/// Volume of data transferred per unit of time
///
/// Definition: DataVolume/Duration
///
/// Reference unit: Byte per Second ('B/s')
///
/// Predefined units:
///
/// | Symbol | Name                  | Definition        | Equivalent in 'B/s' |
/// |--------|-----------------------|-------------------|---------------------|
/// | b/s    | Bit per Second        | b/s               | 0.125               |
/// | kb/s   | Kilobit per Second    | 1000·b/s          | 125                 |
/// | Kib/s  | Kibibit per Second    | 1024·b/s          | 128                 |
/// | kB/s   | Kilobyte per Second   | 1000·B/s          | 1000                |
/// | KiB/s  | Kibibyte per Second   | 1024·B/s          | 1024                |
/// | Mb/s   | Megabit per Second    | 1000000·b/s       | 125000              |
/// | Mib/s  | Mebibit per Second    | 1048576·b/s       | 131072              |
/// | MB/s   | Megabyte per Second   | 1000000·B/s       | 1000000             |
/// | MiB/s  | Mebibyte per Second   | 1048576·B/s       | 1048576             |
/// | Gb/s   | Gigabit per Second    | 1000000000·b/s    | 125000000           |
/// | Gib/s  | Gibibit per Second    | 1073741824·b/s    | 134217728           |
/// | GB/s   | Gigabyte per Second   | 1000000000·B/s    | 1000000000          |
/// | GiB/s  | Gibibyte per Second   | 1073741824·B/s    | 1073741824          |
/// | Tb/s   | Terabit per Second    | 1000000000000·b/s | 125000000000        |
/// | Tib/s  | Tebibit per Second    | 1099511627776·b/s | 137438953472        |
/// | TB/s   | Terabyte per Second   | 1000000000000·B/s | 1000000000000       |
/// | TiB/s  | Tebibyte per Second   | 1099511627776·B/s | 1099511627776       |
pub struct DataThroughput {}

#[cfg(test)]
mod tests {
    use super::*;
    use crate::{
        assert_almost_eq, datavolume::MEBIBYTE, duration::MILLISECOND,
    };

    #[test]
    fn test_datavolume_div_duration() {
        let ad: AmountT = Amnt!(837.5);
        let d = ad * MEBIBYTE;
        let at = Amnt!(2.5);
        let t = at * MILLISECOND;
        let r = d / t;
        assert_almost_eq!(r.amount(), ad / at * Amnt!(1.048576));
        assert_eq!(r.unit(), GIGABYTE_PER_SECOND);
    }
}
