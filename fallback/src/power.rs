// ---------------------------------------------------------------------------
// Copyright:   (c) 2022 ff. Michael Amrhein (michael@adrhinum.de)
// License:     This program is part of a larger application. For license
//              details please read the file LICENSE.TXT provided together
//              with the application.
// ---------------------------------------------------------------------------
// $Source$
// $Revision$

//! Definition of derived quantity `Power`.

use crate::{duration::Duration, energy::Energy, prelude::*};

#[quantity(Energy / Duration)]
#[ref_unit(Watt, "W", NONE, "Reference unit of quantity `Power`")]
#[unit(Milliwatt, "mW", MILLI, 0.001, "0.001·W")]
#[unit(Kilowatt, "kW", KILO, 1000, "1000·W")]
#[unit(Megawatt, "MW", MEGA, 1000000, "1000000·W")]
#[unit(Gigawatt, "GW", GIGA, 1000000000, "1000000000·W")]
#[unit(Terawatt, "TW", TERA, 1000000000000., "1000000000000·W")]
/// Energy transferred or converted per unit of time
///
/// Definition: Energy/Duration
///
/// Reference unit: Watt ('W' = 'J/s' = 'kg·m²/s³')
///
/// Predefined units:
///
/// | Symbol | Name                  | Definition        | Equivalent in 'W'   |
/// |--------|-----------------------|-------------------|---------------------|
/// | mW     | Milliwatt             | 0.001·W           | 0.001               |
/// | kW     | Kilowatt              | 1000·W            | 1000                |
/// | MW     | Megawatt              | 1000000·W         | 1000000             |
/// | GW     | Gigawatt              | 1000000000·W      | 1000000000          |
/// | TW     | Terawatt              | 1000000000000·W   | 1000000000000       |
pub struct Power {}

#[cfg(test)]
mod tests {
    use super::*;
    use crate::{
        assert_almost_eq,
        duration::{HOUR, MINUTE},
        energy::KILOWATT_HOUR,
    };

    #[test]
    fn test_energy_div_duration() {
        let ae: AmountT = Amnt!(90.3);
        let e = ae * KILOWATT_HOUR;
        let at: AmountT = Amnt!(30.);
        let t = at * MINUTE;
        let p = e / t;
        assert_almost_eq!(p.amount(), ae / at * Amnt!(60.));
        assert_eq!(p.unit(), KILOWATT);
    }

    #[test]
    fn test_energy_div_power() {
        let ae: AmountT = Amnt!(90.3);
        let e = ae * KILOWATT_HOUR;
        let ap: AmountT = Amnt!(4.2);
        let p = ap * KILOWATT;
        let t = e / p;
        assert_almost_eq!(t.amount(), ae / ap);
        assert_eq!(t.unit(), HOUR);
    }
}
