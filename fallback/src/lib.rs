// ---------------------------------------------------------------------------
// Copyright:   (c) 2021 ff. Michael Amrhein (michael@adrhinum.de)
// License:     This program is part of a larger application. For license
//              details please read the file LICENSE.TXT provided together
//              with the application.
// ---------------------------------------------------------------------------
// $Source$
// $Revision$

#![doc = include_str ! ("../README.md")]
#![cfg_attr(not(feature = "std"), no_std)]
// activate some rustc lints
#![deny(non_ascii_idents)]
#![deny(unsafe_code)]
#![warn(missing_debug_implementations)]
#![warn(missing_docs)]
#![warn(trivial_casts)]
#![warn(unused)]
#![allow(dead_code)]
// activate some clippy lints
#![warn(clippy::cast_possible_truncation)]
#![warn(clippy::cast_possible_wrap)]
#![warn(clippy::cast_precision_loss)]
#![warn(clippy::cast_sign_loss)]
#![warn(clippy::cognitive_complexity)]
#![warn(clippy::decimal_literal_representation)]
#![warn(clippy::enum_glob_use)]
#![warn(clippy::equatable_if_let)]
#![warn(clippy::fallible_impl_from)]
#![warn(clippy::if_not_else)]
#![warn(clippy::if_then_some_else_none)]
#![warn(clippy::implicit_clone)]
#![warn(clippy::integer_division)]
#![warn(clippy::manual_assert)]
#![warn(clippy::match_same_arms)]
#![warn(clippy::mismatching_type_param_order)]
#![warn(clippy::missing_const_for_fn)]
#![warn(clippy::missing_errors_doc)]
#![warn(clippy::missing_panics_doc)]
#![warn(clippy::multiple_crate_versions)]
#![warn(clippy::multiple_inherent_impl)]
#![warn(clippy::must_use_candidate)]
#![warn(clippy::needless_pass_by_value)]
#![warn(clippy::print_stderr)]
#![warn(clippy::print_stdout)]
#![warn(clippy::semicolon_if_nothing_returned)]
#![warn(clippy::str_to_string)]
#![warn(clippy::string_to_string)]
#![warn(clippy::undocumented_unsafe_blocks)]
#![warn(clippy::unicode_not_nfc)]
#![warn(clippy::unimplemented)]
#![warn(clippy::unseparated_literal_suffix)]
#![warn(clippy::unused_self)]
#![warn(clippy::unwrap_in_result)]
#![warn(clippy::use_self)]
#![warn(clippy::used_underscore_binding)]
#![warn(clippy::wildcard_imports)]

extern crate alloc;

use alloc::{borrow::ToOwned, format, string::String};
use core::{
    cmp::Ordering,
    fmt::{self, Write},
    ops::{Add, Div, Mul, Sub},
};

#[cfg(feature = "fpdec")]
pub use amnt_dec::{AmountT, Dec, Decimal, AMNT_ONE, AMNT_ZERO};
#[cfg(all(not(feature = "fpdec"), target_pointer_width = "32"))]
pub use amnt_f32::{AmountT, AMNT_ONE, AMNT_ZERO};
#[cfg(all(not(feature = "fpdec"), target_pointer_width = "64"))]
pub use amnt_f64::{AmountT, AMNT_ONE, AMNT_ZERO};
pub use converter::{ConversionTable, Converter};
pub use rate::Rate;
pub use si_prefixes::SIPrefix;

mod converter;
pub mod prelude;
mod rate;
mod si_prefixes;

#[cfg(feature = "fpdec")]
#[doc(hidden)]
pub mod amnt_dec;
#[cfg(all(not(feature = "fpdec"), target_pointer_width = "32"))]
#[doc(hidden)]
pub mod amnt_f32;
#[cfg(all(not(feature = "fpdec"), target_pointer_width = "64"))]
#[doc(hidden)]
pub mod amnt_f64;

#[cfg(feature = "acceleration")]
pub mod acceleration;
#[cfg(feature = "area")]
pub mod area;
#[cfg(feature = "datathroughput")]
pub mod datathroughput;
#[cfg(feature = "datavolume")]
pub mod datavolume;
#[cfg(feature = "duration")]
pub mod duration;
#[cfg(feature = "energy")]
pub mod energy;
#[cfg(feature = "force")]
pub mod force;
#[cfg(feature = "frequency")]
pub mod frequency;
#[cfg(feature = "length")]
pub mod length;
#[cfg(feature = "mass")]
pub mod mass;
#[cfg(feature = "power")]
pub mod power;
#[cfg(feature = "speed")]
pub mod speed;
#[cfg(feature = "temperature")]
pub mod temperature;
#[cfg(feature = "volume")]
pub mod volume;

/// The abstract type of units used to define quantities.
pub trait Unit:
    Copy + Eq + PartialEq + Sized + Mul<AmountT> + fmt::Display
{
    /// Associated type of quantity
    type QuantityType: Quantity<UnitType = Self>;

    /// Returns an iterator over the variants of `Self`.
    fn iter() -> impl Iterator<Item = Self>;

    /// Returns `Some(unit)` where `unit.symbol()` == `symbol`, or `None` if
    /// there is no such unit.
    #[must_use]
    fn from_symbol(symbol: &str) -> Option<Self> {
        Self::iter().find(|&unit| unit.symbol() == symbol)
    }

    /// Returns the name of `self`.
    fn name(&self) -> String;

    /// Returns the symbol used to represent `self`.
    fn symbol(&self) -> String;

    /// Returns the SI prefix of `self`, or None is `self` is not a SI unit.
    fn si_prefix(&self) -> Option<SIPrefix>;

    /// Returns `1 * self`
    fn as_qty(&self) -> Self::QuantityType {
        Self::QuantityType::new(AMNT_ONE, *self)
    }

    /// Formats `self` using the given formatter.
    ///
    /// # Errors
    ///
    /// This function will only return an instance of `Error` returned from
    /// the formatter.
    fn fmt(&self, form: &mut fmt::Formatter<'_>) -> fmt::Result {
        fmt::Display::fmt(&self.symbol(), form)
    }
}

/// Type of units being linear scaled in terms of a reference unit.
pub trait LinearScaledUnit: Unit {
    /// Unit used as reference for scaling the units.
    const REF_UNIT: Self;

    /// Returns `Some(unit)` where `unit.scale()` == `Some(amnt)`, or `None`
    /// if there is no such unit.
    #[must_use]
    fn from_scale(amnt: AmountT) -> Option<Self> {
        Self::iter().find(|&unit| unit.scale() == amnt)
    }

    /// Returns `true` if `self` is the reference unit of its unit type.
    #[inline(always)]
    fn is_ref_unit(&self) -> bool {
        *self == Self::REF_UNIT
    }

    /// Returns `factor` so that `factor` * `Self::REFUNIT` == 1 * `self`.
    fn scale(&self) -> AmountT;

    /// Returns `factor` so that `factor` * `other` == 1 * `self`.
    #[inline(always)]
    fn ratio(&self, other: &Self) -> AmountT {
        self.scale() / other.scale()
    }
}

/// The abstract type of quantities.
pub trait Quantity: Copy + Sized + Mul<AmountT> {
    /// Associated type of unit
    type UnitType: Unit<QuantityType = Self>;

    /// Returns an iterator over the variants of `Self::UnitType`.
    #[must_use]
    fn iter_units() -> impl Iterator<Item = Self::UnitType> {
        Self::UnitType::iter()
    }

    /// Returns `Some(unit)` where `unit.symbol()` == `symbol`, or `None` if
    /// there is no such unit.
    #[must_use]
    fn unit_from_symbol(symbol: &str) -> Option<Self::UnitType> {
        Self::iter_units().find(|&unit| unit.symbol() == symbol)
    }

    /// Returns a new instance of the type implementing `Quantity`.
    fn new(amount: AmountT, unit: Self::UnitType) -> Self;

    /// Returns the amount of `self`.
    fn amount(&self) -> AmountT;

    /// Returns the unit of `self`.
    fn unit(&self) -> Self::UnitType;

    /// Return `true` if `self` and `other` have the same unit and their
    /// amounts are equal, otherwise `false`.
    #[inline(always)]
    fn eq(&self, other: &Self) -> bool {
        self.unit() == other.unit() && self.amount() == other.amount()
    }

    /// Returns the partial order of `self`s and `other`s amounts, if both
    /// have the same unit, otherwise `None`.
    fn partial_cmp(&self, other: &Self) -> Option<Ordering> {
        if self.unit() == other.unit() {
            PartialOrd::partial_cmp(&self.amount(), &other.amount())
        } else {
            None
        }
    }

    /// Returns the sum of `self` and `other`, if both have the same unit.
    ///
    /// # Panics
    ///
    /// Panics if `self` and `other` have different units.
    fn add(self, rhs: Self) -> Self {
        if self.unit() == rhs.unit() {
            return Self::new(self.amount() + rhs.amount(), self.unit());
        }
        panic!(
            "Can't add '{}' and '{}'.",
            self.unit().symbol(),
            rhs.unit().symbol()
        );
    }

    /// Returns the difference between `self` and `other`, if both have the
    /// same unit.
    ///
    /// # Panics
    ///
    /// Panics if `self` and `other` have different units.
    fn sub(self, rhs: Self) -> Self {
        if self.unit() == rhs.unit() {
            return Self::new(self.amount() - rhs.amount(), self.unit());
        }
        panic!(
            "Can't subtract '{}' and '{}'.",
            self.unit().symbol(),
            rhs.unit().symbol(),
        );
    }

    /// Returns the quotient `self` / `other`, if both have the same unit.
    ///
    /// # Panics
    ///
    /// Panics if `self` and `other` have different units.
    fn div(self, rhs: Self) -> AmountT {
        if self.unit() == rhs.unit() {
            return self.amount() / rhs.amount();
        }
        panic!(
            "Can't divide '{}' and '{}'.",
            self.unit().symbol(),
            rhs.unit().symbol()
        );
    }

    /// Formats `self` using the given formatter.
    ///
    /// # Errors
    ///
    /// This function will only return an instance of `Error` returned from
    /// the formatter.
    fn fmt(&self, form: &mut fmt::Formatter<'_>) -> fmt::Result {
        if self.unit().symbol().is_empty() {
            fmt::Display::fmt(&self.amount(), form)
        } else {
            let tmp: String;
            let amnt_non_neg = self.amount() >= AMNT_ZERO;
            #[cfg(feature = "fpdec")]
            let abs_amnt = self.amount().abs();
            #[cfg(not(feature = "fpdec"))]
            let abs_amnt = if amnt_non_neg {
                self.amount()
            } else {
                -self.amount()
            };
            if let Some(prec) = form.precision() {
                tmp = format!("{:.*} {}", prec, abs_amnt, self.unit());
            } else {
                tmp = format!("{} {}", abs_amnt, self.unit());
            }
            // `Formatter::pad_integral` measures the width of `tmp` in bytes,
            // which is wrong for unit symbols outside ASCII (like 'µm'), so
            // sign, fill and alignment are applied here, counting characters.
            let sign = if !amnt_non_neg {
                "-"
            } else if form.sign_plus() {
                "+"
            } else {
                ""
            };
            let len = tmp.chars().count() + sign.len();
            let pad = match form.width() {
                Some(width) if width > len => width - len,
                _ => 0,
            };
            if form.sign_aware_zero_pad() {
                form.write_str(sign)?;
                for _ in 0..pad {
                    form.write_char('0')?;
                }
                return form.write_str(&tmp);
            }
            let (pre, post) = match form.align() {
                Some(fmt::Alignment::Left) => (0, pad),
                Some(fmt::Alignment::Center) => (pad / 2, (pad + 1) / 2),
                _ => (pad, 0),
            };
            let fill = form.fill();
            for _ in 0..pre {
                form.write_char(fill)?;
            }
            form.write_str(sign)?;
            form.write_str(&tmp)?;
            for _ in 0..post {
                form.write_char(fill)?;
            }
            Ok(())
        }
    }
}

/// Trait for quantities having a reference unit
pub trait HasRefUnit: Quantity + Add<Self> + Sub<Self> + Div<Self>
where
    <Self as Quantity>::UnitType: LinearScaledUnit,
{
    /// Unit used as reference for scaling the units of `Self::UnitType`.
    const REF_UNIT: <Self as Quantity>::UnitType;

    /// Returns `Some(unit)` where `unit.scale()` == `amnt`, or `None` if
    /// there is no such unit.
    #[must_use]
    fn unit_from_scale(amnt: AmountT) -> Option<Self::UnitType> {
        Self::iter_units().find(|&unit| unit.scale() == amnt)
    }

    /// Returns `factor` so that `factor` * `unit` == `self`.
    #[inline(always)]
    fn equiv_amount(&self, unit: Self::UnitType) -> AmountT {
        if self.unit() == unit {
            self.amount()
        } else {
            self.unit().ratio(&unit) * self.amount()
        }
    }

    /// Returns `qty` where `qty` == `self` and `qty.unit()` is `to_unit`.
    fn convert(&self, to_unit: Self::UnitType) -> Self {
        Self::new(self.equiv_amount(to_unit), to_unit)
    }

    /// Returns true, if `self` and `other` have equivalent amounts, otherwise
    /// `false`.
    ///
    /// Values in different units are compared in the unit with the smaller
    /// scale, so that the result does not depend on the order of operands.
    #[inline(always)]
    fn eq(&self, other: &Self) -> bool {
        if self.unit().scale() <= other.unit().scale() {
            self.amount() == other.equiv_amount(self.unit())
        } else {
            self.equiv_amount(other.unit()) == other.amount()
        }
    }

    /// Returns the partial order of `self`s and `other`s amounts, if both
    /// have the same unit, otherwise the partial order of their eqivalent
    /// amounts in the unit with the smaller scale (so that `a < b` exactly
    /// when `b > a`).
    fn partial_cmp(&self, other: &Self) -> Option<Ordering> {
        if self.unit() == other.unit() {
            PartialOrd::partial_cmp(&self.amount(), &other.amount())
        } else if self.unit().scale() <= other.unit().scale() {
            PartialOrd::partial_cmp(
                &self.amount(),
                &other.equiv_amount(self.unit()),
            )
        } else {
            PartialOrd::partial_cmp(
                &self.equiv_amount(other.unit()),
                &other.amount(),
            )
        }
    }

    /// Returns the sum of `self` and `other`
    #[inline]
    fn add(self, rhs: Self) -> Self {
        Self::new(self.amount() + rhs.equiv_amount(self.unit()), self.unit())
    }

    /// Returns the difference between `self` and `other`
    #[inline]
    fn sub(self, rhs: Self) -> Self {
        Self::new(self.amount() - rhs.equiv_amount(self.unit()), self.unit())
    }

    /// Returns the quotient `self` / `other`
    #[inline]
    fn div(self, rhs: Self) -> AmountT {
        self.amount() / rhs.equiv_amount(self.unit())
    }

    #[doc(hidden)]
    /// Returns a new instance of the type implementing `HasRefUnit`,
    /// equivalent to `amount * Self::REF_UNIT`, converted to the unit
    /// with the greatest scale less than or equal to `amount` or - if
    /// there is no such unit - to the unit with the smallest scale
    /// greater than `amount`, in any case taking only SI units into
    /// account if Self::REF_UNIT is a SI unit.
    #[must_use]
    fn _fit(amount: AmountT) -> Self {
        let take_all = Self::REF_UNIT.si_prefix().is_none();
        let mut it = Self::iter_units()
            .filter(|u| take_all || u.si_prefix().is_some());
        // `it` returns atleast the reference unit, so its safe to unwrap here
        let first = it.next().unwrap();
        let last = it
            .filter(|u| u.scale() > first.scale() && u.scale() <= amount)
            .last();
        match last {
            Some(unit) => Self::new(amount / unit.scale(), unit),
            None => Self::new(amount / first.scale(), first),
        }
    }
}

/// The "unit" of the "unitless" quantity.
#[derive(Copy, Clone, Debug, Eq, PartialEq)]
pub enum One {
    /// Special singleton used as "unit" for the "unitless" quantity.
    One,
}

impl One {
    const VARIANTS: [Self; 1] = [ONE];
}

/// Special singleton used as "unit" for the "unitless" quantity.
pub const ONE: One = One::One;

impl Unit for One {
    type QuantityType = AmountT;
    fn iter() -> impl Iterator<Item = Self> {
        Self::VARIANTS.iter().cloned()
    }
    fn name(&self) -> String {
        "One".to_owned()
    }
    fn symbol(&self) -> String {
        "".to_owned()
    }
    fn si_prefix(&self) -> Option<SIPrefix> {
        None
    }
}

impl fmt::Display for One {
    #[inline(always)]
    fn fmt(&self, form: &mut fmt::Formatter<'_>) -> fmt::Result {
        <Self as Unit>::fmt(self, form)
    }
}

impl LinearScaledUnit for One {
    const REF_UNIT: Self = ONE;
    fn scale(&self) -> AmountT {
        AMNT_ONE
    }
}

impl Mul<One> for AmountT {
    type Output = Self;
    #[inline(always)]
    fn mul(self, _rhs: One) -> Self::Output {
        self
    }
}

impl Mul<AmountT> for One {
    type Output = AmountT;
    #[inline(always)]
    fn mul(self, rhs: AmountT) -> Self::Output {
        rhs
    }
}

impl Quantity for AmountT {
    type UnitType = One;

    #[inline(always)]
    fn new(amount: AmountT, _unit: Self::UnitType) -> Self {
        amount
    }

    #[inline(always)]
    fn amount(&self) -> AmountT {
        *self
    }

    #[inline(always)]
    fn unit(&self) -> Self::UnitType {
        ONE
    }
}

impl HasRefUnit for AmountT {
    const REF_UNIT: One = ONE;

    #[inline(always)]
    fn _fit(amount: AmountT) -> Self {
        amount
    }
}
