// ---------------------------------------------------------------------------
// Copyright:   (c) 2022 ff. Michael Amrhein (michael@adrhinum.de)
// License:     This program is part of a larger application. For license
//              details please read the file LICENSE.TXT provided together
//              with the application.
// ---------------------------------------------------------------------------
// $Source$
// $Revision$

//! Definition of derived quantity `Speed`.

use crate::{duration::Duration, length::Length, prelude::*};

#[quantity(Length / Duration)]
#[ref_unit(Meter_per_Second, "m/s", NONE, "Reference unit of quantity `Speed`")]
#[unit(Kilometer_per_Hour, "km/h", 0.2777777777777778, "km/h")]
#[unit(Miles_per_Hour, "mph", 0.44704, "mi/h")]
/// Magnitude of the change of an objects position per unit of time
///
/// Definition: Length/Duration
///
/// Reference unit: Meter per Second ('m/s')
///
/// Predefined units:
///
/// | Symbol | Name                  | Definition        | Equivalent in 'm/s' |
/// |--------|-----------------------|-------------------|---------------------|
/// | km/h   | Kilometer per Hour    | km/h              | 5/18                |
/// | mph    | Miles per Hour        | mi/h              | 0.44704             |
pub struct Speed {}

#[cfg(test)]
mod tests {
    use super::*;
    use crate::{
        assert_almost_eq,
        duration::{MINUTE, SECOND},
        length::{KILOMETER, METER, MILE},
    };

    #[test]
    fn test_speed() {
        assert_eq!(<Speed as HasRefUnit>::REF_UNIT, SpeedUnit::REF_UNIT);
        assert!(METER_PER_SECOND.is_ref_unit());
        let amnt: AmountT = Amnt!(235.4);
        let v = amnt * KILOMETER_PER_HOUR;
        assert_eq!(v.amount(), amnt);
        assert_eq!(v.unit(), KILOMETER_PER_HOUR);
        #[cfg(feature = "std")]
        assert_eq!(v.to_string(), "235.4 km/h");
    }

    #[test]
    fn test_length_div_duration() {
        let al: AmountT = Amnt!(35.1);
        let l = al * MILE;
        let at: AmountT = Amnt!(13.);
        let t = at * MINUTE;
        let v = l / t;
        assert_almost_eq!(v.amount(), al / at * Amnt!(0.44704) * Amnt!(60.));
        assert_eq!(v.unit(), METER_PER_SECOND);
    }

    #[test]
    fn test_speed_mul_duration() {
        let av: AmountT = Amnt!(2.94);
        let v = av * METER_PER_SECOND;
        let at = Amnt!(0.7);
        let t = at * MINUTE;
        let l = v * t;
        assert_almost_eq!(l.amount(), av * at * Amnt!(60.));
        assert_eq!(l.unit(), METER);
    }

    #[test]
    fn test_length_div_speed() {
        let al = Amnt!(0.7);
        let l = al * KILOMETER;
        let av: AmountT = Amnt!(2.94);
        let v = av * METER_PER_SECOND;
        let t = l / v;
        assert_almost_eq!(t.amount(), al * Amnt!(1000.) / av);
        assert_eq!(t.unit(), SECOND);
    }
}
