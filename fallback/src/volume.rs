// ---------------------------------------------------------------------------
// Copyright:   (c) 2022 ff. Michael Amrhein (michael@adrhinum.de)
// License:     This program is part of a larger application. For license
//              details please read the file LICENSE.TXT provided together
//              with the application.
// ---------------------------------------------------------------------------
// $Source$
// $Revision$

//! Definition of derived quantity `Volume`.

use crate::{area::Area, length::Length, prelude::*};

#[quantity(Length * Area)]
#[ref_unit(Cubic_Meter, "m³", NONE, "Reference unit of quantity `Volume`")]
#[unit(Cubic_Millimeter, "mm³", NANO, 0.000000001, "mm³")]
#[unit(Cubic_Centimeter, "cm³", MICRO, 0.000001, "cm³")]
#[unit(Milliliter, "ml", MICRO, 0.000001, "0.001·l")]
#[unit(Centiliter, "cl", 0.00001, "0.01·l")]
#[unit(Cubic_Inch, "in³", 0.000016387064, "in³")]
#[unit(Deciliter, "dl", 0.0001, "0.1·l")]
#[unit(Cubic_Decimeter, "dm³", MILLI, 0.001, "dm³")]
#[unit(Liter, "l", MILLI, 0.001, "0.001·m³")]
#[unit(Cubic_Foot, "ft³", 0.028316846592, "ft³")]
#[unit(Cubic_Yard, "yd³", 0.764554857984, "yd³")]
#[unit(Cubic_Kilometer, "km³", GIGA, 1000000000, "km³")]
/// The quantity expressing the amount of three-dimensional space enclosed by a
/// closed surface.
///
/// Definition: Length³
///
/// Reference unit: Cubic Meter ('m³')
///
/// Predefined units:
///
/// | Symbol | Name                  | Definition        | Equivalent in 'm³'  |
/// |--------|-----------------------|-------------------|---------------------|
/// | mm³    | Cubic Millimeter      | mm³               | 0.000000001         |
/// | cm³    | Cubic Centimeter      | cm³               | 0.000001            |
/// | ml     | Milliliter            | 0.001·l           | 0.000001            |
/// | cl     | Centiliter            | 0.01·l            | 0.00001             |
/// | in³    | Cubic Inch            | in³               | 0.000016387064      |
/// | dl     | Deciliter             | 0.1·l             | 0.0001              |
/// | dm³    | Cubic Decimeter       | dm³               | 0.001               |
/// | l      | Liter                 | 0.001·m³          | 0.001               |
/// | ft³    | Cubic Foot            | ft³               | 0.028316846592      |
/// | yd³    | Cubic Yard            | yd³               | 0.764554857984      |
/// | km³    | Cubic Kilometer       | km³               | 1000000000          |
pub struct Volume {}

#[cfg(test)]
mod tests {
    use super::*;
    use crate::{
        area::{SQUARE_KILOMETER, SQUARE_METER},
        assert_almost_eq,
        length::{DECIMETER, MILLIMETER},
    };

    #[test]
    fn test_volume() {
        assert_eq!(<Volume as HasRefUnit>::REF_UNIT, VolumeUnit::REF_UNIT);
        assert!(CUBIC_METER.is_ref_unit());
        let amnt: AmountT = Amnt!(29.305);
        let v = amnt * CUBIC_DECIMETER;
        assert_eq!(v.amount(), amnt);
        assert_eq!(v.unit(), CUBIC_DECIMETER);
        #[cfg(feature = "std")]
        assert_eq!(v.to_string(), "29.305 dm³");
    }

    #[test]
    fn test_length_mul_area() {
        let amnt: AmountT = Amnt!(2.1);
        let l = amnt * DECIMETER;
        let a = l * l;
        let v = l * a;
        assert_almost_eq!(v.amount(), amnt * amnt * amnt);
        assert_eq!(v.unit(), CUBIC_DECIMETER);
        let b = Amnt!(0.02) * SQUARE_KILOMETER;
        let h = amnt * DECIMETER;
        let v = b * h;
        assert_almost_eq!(v.amount(), Amnt!(2000.) * amnt);
        assert_eq!(v.unit(), CUBIC_METER);
    }

    #[test]
    fn test_volume_div_length() {
        let amnt: AmountT = Amnt!(-0.42);
        let v = amnt * LITER;
        let a = Amnt!(0.7) * SQUARE_METER;
        let h = v / a;
        assert_almost_eq!(h.amount(), v.amount() / a.amount());
        assert_eq!(h.unit(), MILLIMETER);
    }
}
