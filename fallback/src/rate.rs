// ---------------------------------------------------------------------------
// Copyright:   (c) 2022 ff. Michael Amrhein (michael@adrhinum.de)
// License:     This program is part of a larger application. For license
//              details please read the file LICENSE.TXT provided together
//              with the application.
// ---------------------------------------------------------------------------
// $Source$
// $Revision$

use core::{
    fmt,
    ops::{Div, Mul},
};

use crate::{AmountT, Quantity, Unit, AMNT_ONE};

/// The ratio between two related quantity values.
#[derive(Copy, Clone, Debug)]
pub struct Rate<TQ: Quantity, PQ: Quantity> {
    term_amount: AmountT,
    term_unit: TQ::UnitType,
    per_unit_multiple: AmountT,
    per_unit: PQ::UnitType,
}

impl<TQ: Quantity, PQ: Quantity> Rate<TQ, PQ> {
    /// Returns a new instance of `Rate` with attributes equal to given params.
    #[inline(always)]
    pub const fn new(
        term_amount: AmountT,
        term_unit: TQ::UnitType,
        per_unit_multiple: AmountT,
        per_unit: PQ::UnitType,
    ) -> Self {
        Self {
            term_amount,
            term_unit,
            per_unit_multiple,
            per_unit,
        }
    }

    /// Returns a new instance of `Rate` with attributes extracted from the
    /// given quantity values.
    #[inline(always)]
    pub fn from_qty_vals(term: TQ, per: PQ) -> Self {
        Self {
            term_amount: term.amount(),
            term_unit: term.unit(),
            per_unit_multiple: per.amount(),
            per_unit: per.unit(),
        }
    }

    /// Returns the term amount of `self`.
    #[inline(always)]
    pub const fn term_amount(&self) -> AmountT {
        self.term_amount
    }

    /// Returns the term unit of `self`.
    #[inline(always)]
    pub const fn term_unit(&self) -> TQ::UnitType {
        self.term_unit
    }

    /// Returns the per unit multiple of `self`.
    #[inline(always)]
    pub const fn per_unit_multiple(&self) -> AmountT {
        self.per_unit_multiple
    }

    /// Returns the per unit of `self`.
    #[inline(always)]
    pub const fn per_unit(&self) -> PQ::UnitType {
        self.per_unit
    }

    /// Returns the multiplicative inverse of `self`
    pub const fn reciprocal(&self) -> Rate<PQ, TQ> {
        Rate::<PQ, TQ>::new(
            self.per_unit_multiple(),
            self.per_unit(),
            self.term_amount(),
            self.term_unit(),
        )
    }
}

impl<TQ: Quantity, PQ: Quantity> fmt::Display for Rate<TQ, PQ> {
    fn fmt(&self, f: &mut fmt::Formatter<'_>) -> fmt::Result {
        if self.term_unit().symbol() == "" {
            write!(f, "{} / ", self.term_amount())?;
        } else {
            write!(
                f,
                "{} {} / ",
                self.term_amount(),
                self.term_unit().symbol()
            )?;
        };
        if self.per_unit().symbol() == "" {
            write!(f, "{}", self.per_unit_multiple())
        } else if self.per_unit_multiple() == AMNT_ONE {
            write!(f, "{}", self.per_unit().symbol())
        } else {
            write!(
                f,
                "{} {}",
                self.per_unit_multiple(),
                self.per_unit().symbol()
            )
        }
    }
}

impl<TQ: Quantity, PQ: Quantity> Mul<PQ> for Rate<TQ, PQ>
where
    PQ: Div<PQ, Output = AmountT>,
{
    type Output = TQ;

    fn mul(self, rhs: PQ) -> Self::Output {
        let amnt: AmountT =
            (rhs / self.per_unit().as_qty()) / self.per_unit_multiple();
        Self::Output::new(amnt * self.term_amount(), self.term_unit())
    }
}
