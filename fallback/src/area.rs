// ---------------------------------------------------------------------------
// Copyright:   (c) 2022 ff. Michael Amrhein (michael@adrhinum.de)
// License:     This program is part of a larger application. For license
//              details please read the file LICENSE.TXT provided together
//              with the application.
// ---------------------------------------------------------------------------
// $Source$
// $Revision$

//! Definition of derived quantity `Area`.

use crate::{length::Length, prelude::*};

#[quantity(Length * Length)]
#[ref_unit(Square_Meter, "m²", NONE, "Reference unit of quantity `Area`")]
#[unit(Square_Millimeter, "mm²", MICRO, 0.000001, "mm²")]
#[unit(Square_Centimeter, "cm²", 0.0001, "cm²")]
#[unit(Square_Inch, "in²", 0.00064516, "in²")]
#[unit(Square_Decimeter, "dm²", CENTI, 0.01, "dm²")]
#[unit(Square_Foot, "ft²", 0.09290304, "ft²")]
#[unit(Square_Yard, "yd²", 0.83612736, "yd²")]
#[unit(Are, "a", HECTO, 100, "100·m²")]
#[unit(Acre, "ac", 4046.8564224, "4840·yd²")]
#[unit(Hectare, "ha", 10000, "100·a")]
#[unit(Square_Kilometer, "km²", MEGA, 1000000, "km²")]
#[unit(Square_Mile, "mi²", 2589988.110336, "mi²")]
/// The quantity expressing the extent of a two-dimensional region.
///
/// Definition: Length²
///
/// Reference unit: Square Meter ('m²')
///
/// Predefined units:
///
/// | Symbol | Name                    | Definition      | Equivalent in 'm²'  |
/// |--------|-------------------------|-----------------|---------------------|
/// | mm²    | Square Millimeter       | mm²             | 0.000001            |
/// | cm²    | Square Centimeter       | cm²             | 0.0001              |
/// | in²    | Square Inch             | in²             | 0.00064516          |
/// | dm²    | Square Decimeter        | dm²             | 0.01                |
/// | ft²    | Square Foot             | ft²             | 0.09290304          |
/// | yd²    | Square Yard             | yd²             | 0.83612736          |
/// | a      | Are                     | 100·m²          | 100                 |
/// | ac     | Acre                    | 4840·yd²        | 4046.8564224        |
/// | ha     | Hectare                 | 100·a           | 10000               |
/// | km²    | Square Kilometer        | km²             | 1000000             |
/// | mi²    | Square Mile             | mi²             | 2589988.110336      |
pub struct Area {}

#[cfg(test)]
mod tests {
    use super::*;
    use crate::{
        assert_almost_eq,
        length::{CENTIMETER, KILOMETER, METER},
    };

    #[test]
    fn test_area() {
        assert_eq!(<Area as HasRefUnit>::REF_UNIT, AreaUnit::REF_UNIT);
        assert!(SQUARE_METER.is_ref_unit());
        let amnt: AmountT = Amnt!(29.35);
        let l = amnt * SQUARE_CENTIMETER;
        assert_eq!(l.amount(), amnt);
        assert_eq!(l.unit(), SQUARE_CENTIMETER);
        #[cfg(feature = "std")]
        assert_eq!(l.to_string(), "29.35 cm²");
    }

    #[test]
    fn test_length_mul_length() {
        let amnt: AmountT = Amnt!(29.3);
        let l = amnt * CENTIMETER;
        let a = l * l;
        assert_almost_eq!(a.amount(), amnt * amnt);
        assert_eq!(a.unit(), SQUARE_CENTIMETER);
        let w = Amnt!(2.) * KILOMETER;
        let h = amnt * CENTIMETER;
        let a = w * h;
        assert_almost_eq!(a.amount(), Amnt!(0.2) * amnt);
        assert_eq!(a.unit(), ARE);
    }

    #[test]
    fn test_aera_div_length() {
        let amnt: AmountT = Amnt!(29.4);
        let a = amnt * HECTARE;
        let w = Amnt!(0.7) * KILOMETER;
        let h = a / w;
        assert_almost_eq!(h.amount(), Amnt!(420.));
        assert_eq!(h.unit(), METER);
    }
}
