fn main() {
    let repo = std::env::var("QTY_REPO").unwrap_or_else(|_| "/repo".to_string());
    println!("cargo:rustc-env=QTY_HELPER={}/qty-macros/src/quantity_attr_helper.rs", repo);
    println!("cargo:rerun-if-env-changed=QTY_REPO");
    println!("cargo:rerun-if-changed={}/qty-macros/src/quantity_attr_helper.rs", repo);
    // the entry point `quantity()` of qty-macros/src/lib.rs, copied textually (signature and body) under
    // another name, so that the ORDER in which the macro calls parse_item / analyze / parse_args / codegen
    // (and anything else it may do there) is the code of the working tree, not a transcription of it
    let librs = format!("{}/qty-macros/src/lib.rs", repo);
    println!("cargo:rerun-if-changed={}", librs);
    let text = std::fs::read_to_string(&librs).expect("qty-macros/src/lib.rs");
    let entry = match text.find("pub fn quantity(") {
        Some(start) => {
            let bytes = text.as_bytes();
            let mut i = start;
            while i < bytes.len() && bytes[i] != b'{' {
                i += 1;
            }
            let mut depth = 0i32;
            let mut end = i;
            while end < bytes.len() {
                match bytes[end] {
                    b'{' => depth += 1,
                    b'}' => {
                        depth -= 1;
                        if depth == 0 {
                            break;
                        }
                    }
                    _ => {}
                }
                end += 1;
            }
            text[start..=end.min(bytes.len() - 1)].replacen("pub fn quantity(", "pub fn quantity_entry(", 1)
        }
        None => "pub fn quantity_entry(_args: TokenStream, _item: TokenStream) -> TokenStream { \
                 panic!(\"entry point `quantity` not found\") }"
            .to_string(),
    };
    let out = std::path::Path::new(&std::env::var("OUT_DIR").unwrap()).join("entry.rs");
    std::fs::write(out, entry).expect("write entry.rs");
}
