fn main() {
    let repo = std::env::var("QTY_REPO").unwrap_or_else(|_| "/repo".to_string());
    println!("cargo:rustc-env=QTY_HELPER={}/qty-macros/src/quantity_attr_helper.rs", repo);
    println!("cargo:rerun-if-env-changed=QTY_REPO");
    println!("cargo:rerun-if-changed={}/qty-macros/src/quantity_attr_helper.rs", repo);
}
