//! Line protocol: each input line is `def <hex args source> <hex item source>`; the output line is
//! `rejected` (any abort / panic of the macro code) or
//! `ok <Qty> ref=<Ident|-> derived=<lhs><*|/><rhs>|- | <ident>,<hex name>,<hex symbol>,<prefix|->,<lit|->,<hex doc|-> ... # <impls>`
//! where `<impls>` is the sorted list of the operator impls found in the generated code.
#![allow(dead_code, unused_imports, clippy::all)]
use std::io::{BufRead, Write};
use std::panic::{catch_unwind, AssertUnwindSafe};
use std::str::FromStr;

mod helper {
    include!(env!("QTY_HELPER"));
    // `quantity_entry`: the body of `quantity()` of qty-macros/src/lib.rs (see build.rs)
    include!(concat!(env!("OUT_DIR"), "/entry.rs"));

    fn hex(s: &str) -> String {
        s.bytes().map(|b| format!("{:02x}", b)).collect()
    }

    /// canonical form of a numeric literal: `<i|f>:<mantissa>e<exp10>` (mantissa without trailing zeros)
    fn canon_lit(l: &syn::Lit) -> String {
        let (kind, digits, suffix) = match l {
            syn::Lit::Int(i) => ("i", i.base10_digits().to_string(), i.suffix().to_string()),
            syn::Lit::Float(f) => ("f", f.base10_digits().to_string(), f.suffix().to_string()),
            _ => return "other".to_string(),
        };
        let d: String = digits.chars().filter(|c| *c != '_').collect();
        let (mant, exp) = match d.find(|c| c == 'e' || c == 'E') {
            Some(p) => (d[..p].to_string(), d[p + 1..].parse::<i64>().unwrap_or(0)),
            None => (d.clone(), 0),
        };
        let (ip, fp) = match mant.find('.') {
            Some(p) => (mant[..p].to_string(), mant[p + 1..].to_string()),
            None => (mant.clone(), String::new()),
        };
        let mut m: String = format!("{}{}", ip, fp).trim_start_matches('0').to_string();
        let mut e = exp - fp.len() as i64;
        while m.ends_with('0') {
            m.pop();
            e += 1;
        }
        if m.is_empty() {
            m = "0".to_string();
            e = 0;
        }
        format!("{}:{}e{}{}", kind, m, e, if suffix.is_empty() { String::new() } else { format!("_{}", suffix) })
    }

    fn ty_name(t: &syn::Type) -> String {
        match t {
            syn::Type::Reference(r) => ty_name(&r.elem),
            syn::Type::Path(p) => {
                let mut s = String::new();
                for (k, seg) in p.path.segments.iter().enumerate() {
                    if k > 0 {
                        s.push_str("::");
                    }
                    s.push_str(&seg.ident.to_string());
                    if let syn::PathArguments::AngleBracketed(a) = &seg.arguments {
                        let args: Vec<String> = a
                            .args
                            .iter()
                            .filter_map(|g| match g {
                                syn::GenericArgument::Type(t) => Some(ty_name(t)),
                                _ => None,
                            })
                            .collect();
                        s.push('<');
                        s.push_str(&args.join(","));
                        s.push('>');
                    }
                }
                s
            }
            other => quote::quote!(#other).to_string().replace(' ', ""),
        }
    }

    fn is_ref(t: &syn::Type) -> bool {
        matches!(t, syn::Type::Reference(_))
    }

    /// value of one arm body of a generated accessor: string literal (hex), prefix identifier,
    /// canonical scale literal; anything else is printed as tokens
    fn arm_value(e: &syn::Expr) -> String {
        match e {
            // "text".to_owned()
            syn::Expr::MethodCall(m) if m.method == "to_owned" && m.args.is_empty() => match &*m.receiver {
                syn::Expr::Lit(syn::ExprLit { lit: syn::Lit::Str(t), .. }) => format!("s:{}", hex(&t.value())),
                other => format!("?{}", quote::quote!(#other).to_string().replace(' ', "")),
            },
            // Some(SIPrefix::X)
            syn::Expr::Call(c) => {
                let f = &c.func;
                let fname = quote::quote!(#f).to_string().replace(' ', "");
                match (fname.as_str(), c.args.first()) {
                    ("Some", Some(syn::Expr::Path(p))) if c.args.len() == 1 => {
                        let segs: Vec<String> = p.path.segments.iter().map(|s| s.ident.to_string()).collect();
                        if segs.len() == 2 && segs[0] == "SIPrefix" {
                            format!("p:{}", segs[1])
                        } else {
                            format!("?{}", segs.join("::"))
                        }
                    }
                    _ => format!("?{}", quote::quote!(#c).to_string().replace(' ', "")),
                }
            }
            syn::Expr::Path(p) if p.path.is_ident("None") => "p:-".to_string(),
            // Amnt!(<literal>)
            syn::Expr::Macro(m) if m.mac.path.is_ident("Amnt") => match syn::parse2::<syn::Lit>(m.mac.tokens.clone()) {
                Ok(l) => format!("l:{}", canon_lit(&l)),
                Err(_) => format!("?Amnt!({})", m.mac.tokens.to_string().replace(' ', "")),
            },
            other => format!("?{}", quote::quote!(#other).to_string().replace(' ', "")),
        }
    }

    /// `match self { Self::V => value, .. }` -> V -> value; a body without `match` (single-unit
    /// types) is recorded under `*`, a wildcard arm under `_`
    fn arms_of(b: &syn::Block) -> std::collections::BTreeMap<String, String> {
        let mut out = std::collections::BTreeMap::new();
        let last = match b.stmts.last() {
            Some(syn::Stmt::Expr(e, None)) if b.stmts.len() == 1 => e,
            _ => {
                out.insert("!".to_string(), "body-not-a-single-expression".to_string());
                return out;
            }
        };
        match last {
            syn::Expr::Match(m) => {
                let scrut = &m.expr;
                if quote::quote!(#scrut).to_string() != "self" {
                    out.insert("!".to_string(), "match-not-on-self".to_string());
                }
                for a in &m.arms {
                    if a.guard.is_some() {
                        out.insert("!".to_string(), "guarded-arm".to_string());
                    }
                    let key = match &a.pat {
                        syn::Pat::Path(p) if p.path.segments.len() == 2 && p.path.segments[0].ident == "Self" => {
                            p.path.segments[1].ident.to_string()
                        }
                        syn::Pat::Wild(_) => "_".to_string(),
                        other => format!("?{}", quote::quote!(#other).to_string().replace(' ', "")),
                    };
                    if out.insert(key, arm_value(&a.body)).is_some() {
                        out.insert("!".to_string(), "duplicate-arm".to_string());
                    }
                }
            }
            e => {
                out.insert("*".to_string(), arm_value(e));
            }
        }
        out
    }

    fn serde_attrs_of(owner: &str, attrs: &[syn::Attribute]) -> Vec<String> {
        attrs
            .iter()
            .filter_map(|a| {
                let m = &a.meta;
                let t = quote::quote!(#m).to_string().replace(' ', "");
                if t.contains("serde") {
                    Some(format!("{}:{}", owner, t))
                } else {
                    None
                }
            })
            .collect()
    }

    /// the operator impls in the generated code: `op lhs rhs out forms`
    fn impls_of(code: TokenStream) -> String {
        let file: syn::File = match syn::parse2(code) {
            Ok(f) => f,
            Err(e) => return format!("unparsable-code:{}", e.to_string().replace(' ', "_")),
        };
        let mut rows: std::collections::BTreeMap<String, Vec<String>> = std::collections::BTreeMap::new();
        let mut consts: Vec<String> = Vec::new();
        let mut variants: Vec<String> = Vec::new();
        let mut other_items: Vec<String> = Vec::new();
        // every attribute of the generated struct / enum, their fields and variants that mentions serde: how a
        // value is serialised is decided here, whatever the format
        let mut serde_attrs: Vec<String> = Vec::new();
        // what the GENERATED accessor functions return per variant: fn -> (variant -> value)
        let mut arms: std::collections::BTreeMap<String, std::collections::BTreeMap<String, String>> =
            std::collections::BTreeMap::new();
        for it in &file.items {
            match it {
                syn::Item::Impl(im) => {
                    let (_, path, _) = match &im.trait_ {
                        Some(t) => t,
                        None => continue,
                    };
                    let seg = path.segments.last().unwrap();
                    if seg.ident == "Unit" || seg.ident == "LinearScaledUnit" {
                        for ii in &im.items {
                            if let syn::ImplItem::Fn(f) = ii {
                                let n = f.sig.ident.to_string();
                                if n == "name" || n == "symbol" || n == "si_prefix" || n == "scale" {
                                    arms.insert(n, arms_of(&f.block));
                                }
                            }
                        }
                    }
                    let op = match seg.ident.to_string().as_str() {
                        "Add" => "add",
                        "Sub" => "sub",
                        "Mul" => "mul",
                        "Div" => "div",
                        "PartialEq" => "eq",
                        "PartialOrd" => "lt",
                        _ => continue,
                    };
                    let selfn = ty_name(&im.self_ty);
                    let mut form = String::new();
                    form.push(if is_ref(&im.self_ty) { 'r' } else { 'o' });
                    let rhs = match &seg.arguments {
                        syn::PathArguments::AngleBracketed(a) => {
                            let t = a.args.iter().find_map(|g| match g {
                                syn::GenericArgument::Type(t) => Some(t),
                                _ => None,
                            });
                            match t {
                                Some(t) => {
                                    let n = ty_name(t);
                                    // `Mul<Self> for &Q`: the right operand is a reference, too
                                    form.push(if is_ref(t) || (n == "Self" && is_ref(&im.self_ty)) { 'r' } else { 'o' });
                                    if n == "Self" { selfn.clone() } else { n }
                                }
                                None => {
                                    form.push('o');
                                    selfn.clone()
                                }
                            }
                        }
                        _ => {
                            form.push('o');
                            selfn.clone()
                        }
                    };
                    let mut out = if op == "eq" || op == "lt" { "bool".to_string() } else { "?".to_string() };
                    for ii in &im.items {
                        if let syn::ImplItem::Type(t) = ii {
                            if t.ident == "Output" {
                                out = match &t.ty {
                                    // `<L as Op<R>>::Output` of the borrowed forms
                                    syn::Type::Path(p) if p.qself.is_some() => {
                                        let q = ty_name(&p.qself.as_ref().unwrap().ty);
                                        let q = if q == "Self" { selfn.clone() } else { q };
                                        let seg0 = p.path.segments.first().map(|s| {
                                            let a = match &s.arguments {
                                                syn::PathArguments::AngleBracketed(a) => a
                                                    .args
                                                    .iter()
                                                    .find_map(|g| match g {
                                                        syn::GenericArgument::Type(t) => Some(ty_name(t)),
                                                        _ => None,
                                                    })
                                                    .unwrap_or_else(|| "Self".to_string()),
                                                _ => "Self".to_string(),
                                            };
                                            (s.ident.to_string(), if a == "Self" { q.clone() } else { a })
                                        });
                                        match seg0 {
                                            Some((tr, a)) if q == selfn && a == rhs && tr == seg.ident.to_string() => "fwd".to_string(),
                                            Some((tr, a)) => format!("fwd({},{},{})", tr, q, a),
                                            None => "fwd(?)".to_string(),
                                        }
                                    }
                                    other => {
                                        let o = ty_name(other);
                                        if o == "Self" { selfn.clone() } else { o }
                                    }
                                };
                            }
                        }
                    }
                    let generic = im.generics.params.iter().any(|p| !matches!(p, syn::GenericParam::Lifetime(_)));
                    let key = format!("{}{} {} {}", if generic { "g:" } else { "" }, op, selfn, rhs);
                    rows.entry(key).or_default().push(format!("{}:{}", form, out));
                }
                syn::Item::Const(c) => {
                    let v = match &*c.expr {
                        syn::Expr::Path(p) => p.path.segments.last().map(|s| s.ident.to_string()).unwrap_or_default(),
                        _ => "?".to_string(),
                    };
                    consts.push(format!("{}={}", c.ident, v));
                }
                syn::Item::Enum(e) => {
                    serde_attrs.extend(serde_attrs_of(&e.ident.to_string(), &e.attrs));
                    for v in &e.variants {
                        variants.push(v.ident.to_string());
                        serde_attrs.extend(serde_attrs_of(&format!("{}::{}", e.ident, v.ident), &v.attrs));
                    }
                }
                syn::Item::Struct(st) => {
                    serde_attrs.extend(serde_attrs_of(&st.ident.to_string(), &st.attrs));
                    for (k, f) in st.fields.iter().enumerate() {
                        let n = f.ident.as_ref().map(|i| i.to_string()).unwrap_or_else(|| k.to_string());
                        serde_attrs.extend(serde_attrs_of(&format!("{}.{}", st.ident, n), &f.attrs));
                    }
                }
                // anything else at the top level of the generated code is not something a definition generates:
                // a macro invocation (which may expand to further impls), a function, a static, a module, ...
                syn::Item::Macro(m) => {
                    let p = &m.mac.path;
                    other_items.push(format!("macro:{}", quote::quote!(#p).to_string().replace(' ', "")));
                }
                syn::Item::Fn(f) => other_items.push(format!("fn:{}", f.sig.ident)),
                syn::Item::Static(x) => other_items.push(format!("static:{}", x.ident)),
                syn::Item::Mod(x) => other_items.push(format!("mod:{}", x.ident)),
                syn::Item::Trait(x) => other_items.push(format!("trait:{}", x.ident)),
                syn::Item::Type(x) => other_items.push(format!("type:{}", x.ident)),
                syn::Item::Use(_) => other_items.push("use".to_string()),
                other => {
                    let t = quote::quote!(#other).to_string();
                    other_items.push(format!("item:{}", t.split_whitespace().take(3).collect::<Vec<_>>().join("_")));
                }
            }
        }
        let mut out: Vec<String> = Vec::new();
        for (k, mut forms) in rows {
            forms.sort();
            out.push(format!("{} [{}]", k, forms.join(",")));
        }
        let look = |f: &str, v: &str| -> String {
            match arms.get(f) {
                None => "-".to_string(),
                Some(m) => {
                    if let Some(e) = m.get("!") {
                        return format!("!{}", e);
                    }
                    m.get(v).or_else(|| m.get("*")).or_else(|| m.get("_")).cloned().unwrap_or_else(|| "missing".to_string())
                }
            }
        };
        let per_variant: Vec<String> = variants
            .iter()
            .map(|v| format!("{},{},{},{},{}", v, look("name", v), look("symbol", v), look("si_prefix", v), look("scale", v)))
            .collect();
        serde_attrs.sort();
        format!("{} # consts {} # variants {} # arms {} # items {} # serde {}", out.join("; "), consts.join(","), variants.join(","), per_variant.join(" | "), other_items.join(","), serde_attrs.join(";"))
    }

    /// the sequence of `quantity()` in qty-macros/src/lib.rs
    pub fn run(args: TokenStream, item: TokenStream) -> String {
        // the generated code comes from the macro's own entry point; the parsed definition printed
        // below is recomputed here only to be displayed
        let code = quantity_entry(args.clone(), item.clone());
        let mut item_ast = parse_item(item);
        let mut qty_def = analyze(&mut item_ast);
        qty_def.derived_as = parse_args(args);
        let mut s = format!("ok {}", qty_def.qty_ident);
        match &qty_def.ref_unit_ident {
            Some(i) => s.push_str(&format!(" ref={}", i)),
            None => s.push_str(" ref=-"),
        }
        match &qty_def.derived_as {
            Some(d) => {
                let op = match d.op {
                    syn::BinOp::Mul(_) => "*",
                    syn::BinOp::Div(_) => "/",
                    _ => "?",
                };
                s.push_str(&format!(" derived={}{}{}", d.lhs_ident, op, d.rhs_ident));
            }
            None => s.push_str(" derived=-"),
        }
        for u in &qty_def.units {
            s.push_str(&format!(
                " | {},{},{},{},{},{}",
                u.unit_ident,
                hex(&u.name.value()),
                hex(&u.symbol.value()),
                u.si_prefix.as_ref().map(|p| p.to_string()).unwrap_or_else(|| "-".to_string()),
                u.scale.as_ref().map(canon_lit).unwrap_or_else(|| "-".to_string()),
                u.doc.as_ref().map(|d| hex(&d.value())).unwrap_or_else(|| "-".to_string())
            ));
        }
        s.push_str(" # ");
        s.push_str(&impls_of(code));
        s
    }
}

fn unhex(s: &str) -> String {
    let b: Vec<u8> = (0..s.len() / 2).map(|i| u8::from_str_radix(&s[2 * i..2 * i + 2], 16).unwrap()).collect();
    String::from_utf8(b).unwrap()
}

fn main() {
    std::panic::set_hook(Box::new(|_| {}));
    let stdin = std::io::stdin();
    let out = std::io::stdout();
    let mut out = std::io::BufWriter::new(out.lock());
    for line in stdin.lock().lines() {
        let line = line.unwrap();
        let ws: Vec<&str> = line.split(' ').collect();
        if ws.len() != 3 || ws[0] != "def" {
            writeln!(out, "bad-op").unwrap();
            continue;
        }
        let args = unhex(ws[1]);
        let item = unhex(ws[2]);
        let r = catch_unwind(AssertUnwindSafe(|| {
            let a = match proc_macro2::TokenStream::from_str(&args) {
                Ok(t) => t,
                Err(_) => return "lexerr".to_string(),
            };
            let i = match proc_macro2::TokenStream::from_str(&item) {
                Ok(t) => t,
                Err(_) => return "lexerr".to_string(),
            };
            helper::run(a, i)
        }));
        match r {
            Ok(s) => writeln!(out, "{}", s).unwrap(),
            Err(_) => writeln!(out, "rejected").unwrap(),
        }
    }
}
